// Package workload produces the grammars and inputs the simulated clients
// work on. Generated grammars are well-formed by construction: rule i refers
// to rule j>i freely (so plain references form a DAG) and to rules j<=i only
// after a definitely-consuming element of the same sequence (guarded
// recursion); operands of * and + are definitely consuming under a
// conservative analysis. They carry probe callbacks (p.H.Pred / p.H.Act).
package workload

import (
	"fmt"
	"strings"
	"unicode/utf8"

	"verif/internal/simrt"
)

type Kind int

const (
	KChar     Kind = iota
	KStr           // single-quoted multi-rune literal
	KStrCI         // double-quoted (case-insensitive) literal
	KClass         // [a-c]
	KNegClass      // [^a]
	KCIClass       // [[a]]
	KDot
	KRef
	KSeq
	KChoice
	KStar
	KPlus
	KOpt
	KAnd
	KNot
	KCapture
	KAction
	KPred
	KEmpty // empty alternative (only as last alternative)
)

type Expr struct {
	Kind   Kind
	Kids   []*Expr
	Lit    string
	Lo, Hi rune
	Ref    int
	ID     int
	// conservative: every successful match consumes at least one rune
	Consuming bool
}

type Grammar struct {
	Name     string // package name
	Alphabet []rune
	Rules    []*Expr // rule i is named R<i>
	Anchored bool    // entry rule is S <- R0 !.
	Salt     uint64
	NAct     int
	NPred    int
	HostRefs bool // callbacks use p.H (false: plain grammar without probes)
}

type gen struct {
	r     *simrt.SplitMix64
	g     *Grammar
	cur   int // rule being generated
	nrule int
	wild  bool // no well-formedness discipline: any rule anywhere (left recursion, nullable loops); never executed, only compiled
}

var alphaPool = []rune("abcdxyz01")
var wideRunes = []rune{'é', '世', 'ß', 0x1F600}

// GenerateWild builds a grammar without the well-formedness discipline:
// references go anywhere, so direct, indirect and mutual left recursion,
// recursion under ? * & ! and loops over nullable operands all occur. Such
// grammars are for the generator only (C09 quantifies over all grammars);
// the parsers they yield are never run.
func GenerateWild(seed uint64, name string) *Grammar { return generate(seed, name, true) }

// Generate builds one well-formed grammar from a seed.
func Generate(seed uint64, name string) *Grammar { return generate(seed, name, false) }

func generate(seed uint64, name string, wild bool) *Grammar {
	r := simrt.NewRNG(seed)
	g := &Grammar{Name: name, Salt: r.Uint64(), HostRefs: true}
	na := 2 + r.Intn(4)
	perm := append([]rune{}, alphaPool...)
	for i := len(perm) - 1; i > 0; i-- {
		j := r.Intn(i + 1)
		perm[i], perm[j] = perm[j], perm[i]
	}
	g.Alphabet = append(g.Alphabet, perm[:na]...)
	if r.Chance(1, 4) {
		g.Alphabet = append(g.Alphabet, wideRunes[r.Intn(len(wideRunes))])
	}
	n := 2 + r.Intn(6)
	g.Rules = make([]*Expr, n)
	ge := &gen{r: r, g: g, nrule: n, wild: wild}
	g.Anchored = r.Chance(2, 3)
	for i := n - 1; i >= 0; i-- {
		ge.cur = i
		depth := 3
		if i == 0 {
			depth = 4
		}
		var e *Expr
		if i == 0 && n >= 3 && r.Chance(2, 3) {
			e = ge.sharedPrefixChoice(depth)
		} else {
			e = ge.expr(depth, false, false)
		}
		g.Rules[i] = e
	}
	return g
}

func (ge *gen) lit() *Expr {
	r := ge.r
	a := ge.g.Alphabet
	c := a[r.Intn(len(a))]
	switch r.Intn(12) {
	case 0:
		if len(a) >= 2 {
			// class over a contiguous range of sorted alphabet letters
			lo, hi := c, a[r.Intn(len(a))]
			if lo > hi {
				lo, hi = hi, lo
			}
			if isPlain(lo) && isPlain(hi) {
				return &Expr{Kind: KClass, Lo: lo, Hi: hi, Consuming: true}
			}
		}
	case 1:
		if isPlain(c) {
			return &Expr{Kind: KNegClass, Lo: c, Hi: c, Consuming: true}
		}
	case 2:
		if isLetter(c) {
			return &Expr{Kind: KCIClass, Lo: c, Hi: c, Consuming: true}
		}
	case 3:
		return &Expr{Kind: KDot, Consuming: true}
	case 4:
		k := 2 + r.Intn(2)
		var sb strings.Builder
		for range k {
			sb.WriteRune(a[r.Intn(len(a))])
		}
		return &Expr{Kind: KStr, Lit: sb.String(), Consuming: true}
	case 5:
		k := 1 + r.Intn(2)
		var sb strings.Builder
		ok := true
		for range k {
			x := a[r.Intn(len(a))]
			if !isPlain(x) {
				ok = false
			}
			sb.WriteRune(x)
		}
		if ok {
			return &Expr{Kind: KStrCI, Lit: sb.String(), Consuming: true}
		}
	}
	return &Expr{Kind: KChar, Lit: string(c), Consuming: true}
}

func isPlain(c rune) bool  { return c < 0x80 && (isLetter(c) || (c >= '0' && c <= '9')) }
func isLetter(c rune) bool { return (c >= 'a' && c <= 'z') || (c >= 'A' && c <= 'Z') }

// ref picks a rule reference. guarded: a consuming element precedes it in
// the enclosing sequence, so any rule may be referenced.
func (ge *gen) ref(guarded bool) *Expr {
	r := ge.r
	if ge.wild {
		j := r.Intn(ge.nrule)
		c := false
		if ge.g.Rules[j] != nil {
			c = ge.g.Rules[j].Consuming
		}
		return &Expr{Kind: KRef, Ref: j, Consuming: c || r.Chance(1, 2)}
	}
	if guarded && r.Chance(1, 3) {
		j := r.Intn(ge.cur + 1)
		return &Expr{Kind: KRef, Ref: j, Consuming: false}
	}
	if ge.cur+1 < ge.nrule {
		j := ge.cur + 1 + r.Intn(ge.nrule-ge.cur-1)
		return &Expr{Kind: KRef, Ref: j, Consuming: ge.g.Rules[j].Consuming}
	}
	return nil
}

func (ge *gen) action() *Expr {
	ge.g.NAct++
	return &Expr{Kind: KAction, ID: ge.g.NAct}
}

func (ge *gen) pred() *Expr {
	ge.g.NPred++
	return &Expr{Kind: KPred, ID: ge.g.NPred}
}

// expr generates an expression. need: it must be definitely consuming.
func (ge *gen) expr(depth int, need bool, guarded bool) *Expr {
	r := ge.r
	if depth <= 0 {
		if !need && r.Chance(1, 3) {
			if e := ge.ref(guarded); e != nil {
				return e
			}
		}
		if need {
			if e := ge.ref(guarded); e != nil && e.Consuming && r.Chance(1, 2) {
				return e
			}
		}
		return ge.lit()
	}
	switch k := r.Intn(20); {
	case k < 3:
		return ge.lit()
	case k < 6:
		if e := ge.ref(guarded); e != nil && (!need || e.Consuming) {
			return e
		}
		return ge.lit()
	case k < 10:
		return ge.seq(depth, need, guarded)
	case k < 13:
		return ge.choice(depth, need, guarded)
	case k < 14:
		if need {
			return ge.seq(depth, need, guarded)
		}
		return &Expr{Kind: KStar, Kids: []*Expr{ge.expr(depth-1, true, guarded)}}
	case k < 15:
		op := ge.expr(depth-1, true, guarded)
		return &Expr{Kind: KPlus, Kids: []*Expr{op}, Consuming: true}
	case k < 16:
		if need {
			return ge.seq(depth, need, guarded)
		}
		return &Expr{Kind: KOpt, Kids: []*Expr{ge.expr(depth-1, false, guarded)}}
	case k < 17:
		// lookahead followed by something: &X X is the memo-relevant shape
		op := ge.expr(depth-1, false, guarded)
		kind := KAnd
		if r.Chance(1, 2) {
			kind = KNot
		}
		la := &Expr{Kind: kind, Kids: []*Expr{op}}
		var rest *Expr
		if kind == KAnd && r.Chance(1, 2) && (!need || op.Consuming) {
			rest = clone(op)
		} else {
			rest = ge.expr(depth-1, need, guarded)
		}
		return &Expr{Kind: KSeq, Kids: []*Expr{la, rest}, Consuming: rest.Consuming}
	case k < 19:
		op := ge.expr(depth-1, need, guarded)
		c := &Expr{Kind: KCapture, Kids: []*Expr{op}, Consuming: op.Consuming}
		if r.Chance(2, 3) {
			return &Expr{Kind: KSeq, Kids: []*Expr{c, ge.action()}, Consuming: c.Consuming}
		}
		return c
	default:
		if need {
			return ge.seq(depth, need, guarded)
		}
		if r.Chance(1, 2) {
			return ge.action()
		}
		return ge.pred()
	}
}

func (ge *gen) seq(depth int, need bool, guarded bool) *Expr {
	r := ge.r
	n := 2 + r.Intn(3)
	e := &Expr{Kind: KSeq}
	g := guarded
	for i := range n {
		var k *Expr
		switch {
		case r.Chance(1, 8):
			k = ge.action()
		case r.Chance(1, 10):
			k = ge.pred()
		default:
			k = ge.expr(depth-1, need && !e.Consuming && i == n-1, g)
		}
		e.Kids = append(e.Kids, k)
		if k.Consuming {
			e.Consuming = true
			g = true
		}
	}
	return e
}

func (ge *gen) choice(depth int, need bool, guarded bool) *Expr {
	r := ge.r
	if r.Chance(1, 5) {
		if e := ge.lookaheadThenRetry(depth, need, guarded); e != nil {
			return e
		}
	}
	n := 2 + r.Intn(3)
	e := &Expr{Kind: KChoice, Consuming: true}
	for range n {
		k := ge.expr(depth-1, need, guarded)
		e.Kids = append(e.Kids, k)
		if !k.Consuming {
			e.Consuming = false
		}
	}
	if !need && r.Chance(1, 8) {
		e.Kids = append(e.Kids, &Expr{Kind: KEmpty})
		e.Consuming = false
	}
	return e
}

// lookaheadThenRetry: "lookahead followed by consumption" across
// alternatives — a rule is entered inside !X (or &X), the alternative then
// fails or not, and a later alternative enters X again at the same offset:
//
//	!X s / X t        &X u / X v
func (ge *gen) lookaheadThenRetry(depth int, need bool, guarded bool) *Expr {
	x := ge.ref(guarded)
	if x == nil || x.Kind != KRef {
		return nil
	}
	r := ge.r
	kind := KNot
	if r.Chance(1, 3) {
		kind = KAnd
	}
	first := &Expr{Kind: KSeq, Kids: []*Expr{{Kind: kind, Kids: []*Expr{clone(x)}}, ge.expr(depth-1, need, guarded)}}
	first.Consuming = first.Kids[1].Consuming
	second := &Expr{Kind: KSeq, Kids: []*Expr{clone(x), ge.expr(depth-1, need && !x.Consuming, guarded || x.Consuming)}}
	second.Consuming = x.Consuming || second.Kids[1].Consuming
	e := &Expr{Kind: KChoice, Kids: []*Expr{first, second}, Consuming: first.Consuming && second.Consuming}
	if r.Chance(1, 2) {
		third := ge.expr(depth-1, need, guarded)
		e.Kids = append(e.Kids, third)
		e.Consuming = e.Consuming && third.Consuming
	}
	return e
}

// sharedPrefixChoice builds the shape that makes memoisation matter:
//
//	X s1 / Y s2 / X s3 …
//
// where X and Y are references to different rules over the same terminals,
// so that the tokens written by the first visit of X are overwritten by Y
// before X is re-entered at the same offset.
func (ge *gen) sharedPrefixChoice(depth int) *Expr {
	r := ge.r
	n := 3 + r.Intn(3)
	cands := []int{}
	for j := ge.cur + 1; j < ge.nrule; j++ {
		cands = append(cands, j)
	}
	x := cands[r.Intn(len(cands))]
	y := cands[r.Intn(len(cands))]
	e := &Expr{Kind: KChoice, Consuming: true}
	for i := range n {
		lead := x
		if i%2 == 1 {
			lead = y
		}
		if r.Chance(1, 6) {
			lead = cands[r.Intn(len(cands))]
		}
		s := &Expr{Kind: KSeq}
		if r.Chance(1, 5) {
			s.Kids = append(s.Kids, ge.action())
		}
		if r.Chance(1, 6) {
			la := &Expr{Kind: KAnd, Kids: []*Expr{{Kind: KRef, Ref: lead, Consuming: ge.g.Rules[lead].Consuming}}}
			s.Kids = append(s.Kids, la)
		}
		s.Kids = append(s.Kids, &Expr{Kind: KRef, Ref: lead, Consuming: ge.g.Rules[lead].Consuming})
		g := ge.g.Rules[lead].Consuming
		tail := ge.expr(depth-2, false, g)
		s.Kids = append(s.Kids, tail)
		if r.Chance(1, 2) {
			s.Kids = append(s.Kids, ge.lit())
		}
		for _, k := range s.Kids {
			if k.Consuming {
				s.Consuming = true
			}
		}
		if !s.Consuming {
			e.Consuming = false
		}
		e.Kids = append(e.Kids, s)
	}
	return e
}

func clone(e *Expr) *Expr {
	c := *e
	c.Kids = nil
	for _, k := range e.Kids {
		c.Kids = append(c.Kids, clone(k))
	}
	return &c
}

// ---------- rendering ----------

func quoteRune(c rune) string {
	switch c {
	case '\'':
		return `\'`
	case '\\':
		return `\\`
	case '"':
		return `\"`
	case '[':
		return `\[`
	case ']':
		return `\]`
	case '-':
		return `\-`
	}
	return string(c)
}

// precedence levels of the .peg syntax: choice < sequence < prefix < suffix < primary
func level(e *Expr) int {
	switch e.Kind {
	case KChoice:
		return 0
	case KSeq:
		return 1
	case KAnd, KNot, KPred:
		return 2
	case KStar, KPlus, KOpt:
		return 3
	case KEmpty:
		return 0
	}
	return 4
}

func (g *Grammar) render(e *Expr, sb *strings.Builder, prec int) {
	if level(e) < prec {
		sb.WriteString("(")
		g.render(e, sb, 0)
		sb.WriteString(")")
		return
	}
	switch e.Kind {
	case KChar:
		fmt.Fprintf(sb, "'%s'", quoteRune([]rune(e.Lit)[0]))
	case KStr:
		sb.WriteString("'")
		for _, c := range e.Lit {
			sb.WriteString(quoteRune(c))
		}
		sb.WriteString("'")
	case KStrCI:
		sb.WriteString(`"`)
		for _, c := range e.Lit {
			sb.WriteString(quoteRune(c))
		}
		sb.WriteString(`"`)
	case KClass:
		fmt.Fprintf(sb, "[%s-%s]", quoteRune(e.Lo), quoteRune(e.Hi))
	case KNegClass:
		fmt.Fprintf(sb, "[^%s]", quoteRune(e.Lo))
	case KCIClass:
		fmt.Fprintf(sb, "[[%s]]", quoteRune(e.Lo))
	case KDot:
		sb.WriteString(".")
	case KRef:
		fmt.Fprintf(sb, "R%d", e.Ref)
	case KSeq:
		for i, k := range e.Kids {
			if i > 0 {
				sb.WriteString(" ")
			}
			g.render(k, sb, 2)
		}
	case KChoice:
		for i, k := range e.Kids {
			if i > 0 {
				sb.WriteString(" / ")
			}
			g.render(k, sb, 1)
		}
	case KStar, KPlus, KOpt:
		g.render(e.Kids[0], sb, 4)
		sb.WriteString(map[Kind]string{KStar: "*", KPlus: "+", KOpt: "?"}[e.Kind])
	case KAnd:
		sb.WriteString("&")
		g.renderPrefixOperand(e.Kids[0], sb)
	case KNot:
		sb.WriteString("!")
		g.renderPrefixOperand(e.Kids[0], sb)
	case KCapture:
		sb.WriteString("<")
		g.render(e.Kids[0], sb, 0)
		sb.WriteString(">")
	case KAction:
		if g.HostRefs {
			fmt.Fprintf(sb, "{ p.H.Act(%d, text, begin, end) }", e.ID)
		} else {
			fmt.Fprintf(sb, "{ _ = %d }", e.ID)
		}
	case KPred:
		if g.HostRefs {
			fmt.Fprintf(sb, "&{ p.H.Pred(%d, int(position)) }", e.ID)
		} else {
			sb.WriteString("&{ true }")
		}
	case KEmpty:
		// nothing: an empty alternative
	}
}

// renderPrefixOperand: "&{" and "!{" are the predicate / state-change
// syntax, so an action operand must be parenthesised.
func (g *Grammar) renderPrefixOperand(e *Expr, sb *strings.Builder) {
	if e.Kind == KAction {
		sb.WriteString("(")
		g.render(e, sb, 0)
		sb.WriteString(")")
		return
	}
	g.render(e, sb, 3)
}

// Text renders the grammar in .peg syntax.
func (g *Grammar) Text() string {
	var sb strings.Builder
	fmt.Fprintf(&sb, "package %s\n\n", g.Name)
	if g.HostRefs {
		sb.WriteString("import \"github.com/pointlander/peg/zzsim/simrt\"\n\n")
		sb.WriteString("type G Peg {\n\tH *simrt.Host\n}\n\n")
	} else {
		sb.WriteString("type G Peg {\n}\n\n")
	}
	if g.Anchored {
		sb.WriteString("S <- R0 !.\n")
	}
	for i, r := range g.Rules {
		fmt.Fprintf(&sb, "R%d <- ", i)
		g.render(r, &sb, 0)
		sb.WriteString("\n")
	}
	return sb.String()
}

// RuleNames in declaration order (as the generated parser numbers them).
func (g *Grammar) RuleNames() []string {
	var out []string
	if g.Anchored {
		out = append(out, "S")
	}
	for i := range g.Rules {
		out = append(out, fmt.Sprintf("R%d", i))
	}
	return out
}

// ---------- inputs ----------

func (g *Grammar) sample(r *simrt.SplitMix64, e *Expr, depth int, sb *strings.Builder) {
	if sb.Len() > 120 {
		return
	}
	a := g.Alphabet
	switch e.Kind {
	case KChar, KStr:
		sb.WriteString(e.Lit)
	case KStrCI:
		for _, c := range e.Lit {
			if r.Chance(1, 2) {
				sb.WriteString(strings.ToUpper(string(c)))
			} else {
				sb.WriteString(strings.ToLower(string(c)))
			}
		}
	case KClass:
		sb.WriteRune(e.Lo + rune(r.Intn(int(e.Hi-e.Lo)+1)))
	case KNegClass:
		for range 4 {
			c := a[r.Intn(len(a))]
			if c != e.Lo {
				sb.WriteRune(c)
				return
			}
		}
		sb.WriteRune('q')
	case KCIClass:
		if r.Chance(1, 2) {
			sb.WriteString(strings.ToUpper(string(e.Lo)))
		} else {
			sb.WriteString(strings.ToLower(string(e.Lo)))
		}
	case KDot:
		sb.WriteRune(a[r.Intn(len(a))])
	case KRef:
		if depth <= 0 {
			return
		}
		g.sample(r, g.Rules[e.Ref], depth-1, sb)
	case KSeq:
		for _, k := range e.Kids {
			g.sample(r, k, depth, sb)
		}
	case KChoice:
		g.sample(r, e.Kids[r.Intn(len(e.Kids))], depth, sb)
	case KStar:
		for range r.Intn(4) {
			g.sample(r, e.Kids[0], depth, sb)
		}
	case KPlus:
		for range 1 + r.Intn(3) {
			g.sample(r, e.Kids[0], depth, sb)
		}
	case KOpt:
		if r.Chance(1, 2) {
			g.sample(r, e.Kids[0], depth, sb)
		}
	case KCapture:
		g.sample(r, e.Kids[0], depth, sb)
	}
}

func clip(s string, n int) string {
	rs := []rune(s)
	if len(rs) > n {
		rs = rs[:n]
	}
	return string(rs)
}

// Inputs produces a pool of inputs: sampled derivations, mutations of them,
// random alphabet strings, the empty string, single runes.
func (g *Grammar) Inputs(seed uint64, n, maxRunes int) []string {
	r := simrt.NewRNG(seed)
	seen := map[string]bool{}
	var out []string
	add := func(s string) {
		s = clip(s, maxRunes)
		if !utf8.ValidString(s) || seen[s] {
			return
		}
		seen[s] = true
		out = append(out, s)
	}
	add("")
	for _, c := range g.Alphabet {
		add(string(c))
	}
	var derivs []string
	for i := 0; i < n*2 && len(out) < n*2/3+len(g.Alphabet)+1; i++ {
		var sb strings.Builder
		g.sample(r, g.Rules[0], 4+r.Intn(4), &sb)
		derivs = append(derivs, sb.String())
		add(sb.String())
	}
	for tries := 0; len(out) < n && tries < n*20; tries++ {
		switch r.Intn(3) {
		case 0: // random string
			k := r.Intn(12)
			var sb strings.Builder
			for range k {
				sb.WriteRune(g.Alphabet[r.Intn(len(g.Alphabet))])
			}
			add(sb.String())
		default: // mutate a derivation
			if len(derivs) == 0 {
				continue
			}
			rs := []rune(derivs[r.Intn(len(derivs))])
			for range 1 + r.Intn(2) {
				c := g.Alphabet[r.Intn(len(g.Alphabet))]
				switch {
				case len(rs) == 0 || r.Chance(1, 3):
					p := r.Intn(len(rs) + 1)
					rs = append(rs[:p], append([]rune{c}, rs[p:]...)...)
				case r.Chance(1, 2):
					p := r.Intn(len(rs))
					rs = append(rs[:p], rs[p+1:]...)
				default:
					rs[r.Intn(len(rs))] = c
				}
			}
			add(string(rs))
		}
	}
	return out
}
