package orch

import (
	"bytes"
	"encoding/json"
	"fmt"
	"go/parser"
	"go/token"
	"hash/fnv"
	"os"
	"path/filepath"
	"regexp"
	"sort"
	"strings"
	"sync"
	"time"

	"verif/internal/simrt"
	"verif/internal/weave"
	"verif/internal/workload"
)

// ---------------------------------------------------------------------
// gensim: code generation under the simulator (C09)
// ---------------------------------------------------------------------

type GText struct {
	Name string `json:"name"`
	Text string `json:"text"`
}

type GClient struct {
	Text   int  `json:"text"`
	Inline bool `json:"inline"`
	Switch bool `json:"switch"`
	NoAst  bool `json:"noast"`
	Strict bool `json:"strict"`
}

func (c GClient) opts() []string {
	var o []string
	if c.Inline {
		o = append(o, "-inline")
	}
	if c.Switch {
		o = append(o, "-switch")
	}
	if c.NoAst {
		o = append(o, "-noast")
	}
	if c.Strict {
		o = append(o, "-strict")
	}
	return o
}

type GCase struct {
	Run          int       `json:"run"`
	Clients      []GClient `json:"clients"`
	SchedTape    []uint32  `json:"sched_tape,omitempty"`
	ActiveNum    int       `json:"active_num,omitempty"`
	ActiveDen    int       `json:"active_den,omitempty"`
	SiteSeed     uint64    `json:"site_seed,omitempty"`
	Budget       uint32    `json:"budget,omitempty"`
	MapSeed      uint64    `json:"map_seed,omitempty"`
	Race         bool      `json:"race,omitempty"`
	Cold         bool      `json:"cold,omitempty"`
	FreezeClient int       `json:"freeze_client,omitempty"`
	FreezeAt     int       `json:"freeze_at,omitempty"`
	Procs        int       `json:"procs,omitempty"`
	ClockTape    []uint32  `json:"clock_tape,omitempty"`
}

type GJob struct {
	Seed     uint64   `json:"seed"`
	From     int      `json:"from"`
	To       int      `json:"to"`
	Explicit []GCase  `json:"explicit,omitempty"`
	Workload string   `json:"workload"`
	Race     bool     `json:"race"`
	KeepLog  bool     `json:"keep_log"`
	MaxViol  int      `json:"max_viol"`
	Solo     bool     `json:"solo"`
	Env      []string `json:"-"`
}

type GGenResult struct {
	Text   int    `json:"text"`
	Opts   string `json:"opts"`
	OutLen int    `json:"out_len"`
	OutSum uint64 `json:"out_sum"`
	Err    string `json:"err"`
	Stderr string `json:"stderr"`
	Panic  string `json:"panic,omitempty"`
}

type GViolation struct {
	Case    GCase    `json:"case"`
	Outcome POutcome `json:"outcome"`
}

type GJobResult struct {
	Runs       int            `json:"runs"`
	Skipped    map[string]int `json:"skipped"`
	Nontrivial int            `json:"nontrivial"`
	Sigs       []uint64       `json:"sigs"`
	Stats      map[string]int `json:"stats"`
	Violations []GViolation   `json:"violations"`
	Samples    []GCase        `json:"samples"`
	Adjacent   []uint64       `json:"adjacent"`
	Outcomes   []POutcome     `json:"outcomes,omitempty"`
	Solo       []GGenResult   `json:"solo,omitempty"`
	GoidFast   bool           `json:"goid_fast"`
	NSites     int            `json:"nsites"`
	MapRanges  uint64         `json:"map_ranges"`
	MapUnctl   uint64         `json:"map_uncontrolled"`
}

type gensimRig struct {
	env        *Env
	sc         *Scratch
	repo       string
	wrepo      string
	peg        string
	pegRace    string
	runner     string
	raceRunner string
	workload   string
	texts      []GText
	weaver     *weave.Weaver
	jobSeq     int
	mu         sync.Mutex
	excluded   []string
}

func (e *Env) gensimTexts(nGen int, thorough bool) []GText {
	var out []GText
	hdr := "package p\n\ntype T Peg {}\n\n"
	out = append(out,
		GText{"warn-unused", hdr + "S <- 'a' B\nB <- 'b'\nU <- 'c' V\nV <- 'd'\n"},
		GText{"warn-undefined", hdr + "S <- 'a' X Y\nT2 <- X\n"},
		GText{"warn-leftrec", hdr + "S <- S 'a' / A\nA <- B 'x' / 'y'\nB <- A 'z' / 'w'\n"},
		GText{"warn-all", hdr + "S <- S 'a' / X / 'b'\nU <- U2\nU2 <- U 'q'\nW <- 'w' Y\n"},
		GText{"dup-rule", hdr + "S <- 'a' A\nA <- 'b'\nA <- 'c'\n"},
		GText{"tiny", hdr + "S <- 'a' S / !.\n"},
		// left recursion in its various guises (all of them only warned about)
		// classes at the very top of the code space and around other boundaries, for the -switch pass
		GText{"top-range", hdr + "S <- ([\\0x10FFF0-\\0x10FFFF] 'a' / [a-f] 'b' / [g-k]+ / [\\0x10FF00-\\0x10FFEF] / 'z')+ !.\n"},
		GText{"boundaries", hdr + "S <- ([\\0x0-\\0x1] / [\\0x7E-\\0x80] 'x' / [\\0xFFFE-\\0x10001] 'y' / [\\0xD7FF-\\0xD7FF] / 'q' S)* T\nT <- [\\0x10FFFF-\\0x10FFFF] / 'a' / [b-c] T\n"},
		GText{"imports", "package p\n\nimport \"fmt\"\nimport str \"strings\"\nimport \"os\"\nimport f \"fmt\"\nimport o2 \"os\"\nimport \"fmt\"\n\ntype T Peg {\n n int\n}\n\n# a header comment\nS <- <.> { fmt.Print(str.ToUpper(text)); f.Print(); _, _ = os.Args, o2.Args } S / !.\n"},
		GText{"many-rules", manyRules(270)},
		GText{"many-rules-lr", manyRulesLR(1300)},
		GText{"bad-action", hdr + "S <- 'a' { this is ( not go } T\nT <- 'b'\n"},
		GText{"layered-9", layered(9)},
		GText{"layered-12-no-lr", layeredNoLR(12)},
		GText{"lr-mutual", hdr + "S <- A 'q' / C\nA <- C 'x'\nC <- A / 'z'\n"},
		GText{"lr-indirect3", hdr + "S <- A\nA <- B 'a' / 'x'\nB <- C 'b' / 'y'\nC <- A 'c' / 'z'\n"},
		GText{"lr-nullable-prefix", hdr + "S <- A !.\nA <- B? A 'x' / 'y'\nB <- 'b'*\n"},
		GText{"lr-under-ops", hdr + "S <- (&S 'a')? T\nT <- !T 'b' / U*\nU <- U? 'c' / <S> 'd'\n"},
		GText{"lr-always-succeeds", hdr + "S <- A B C\nA <- B / 'a'?\nB <- C A / \nC <- A* B\n"},
	)
	rel := []string{"peg.peg", "grammars/longtest/long.peg", "grammars/calculator/calculator.peg", "grammars/calculatorast/calculator.peg",
		"grammars/fexl/fexl.peg", "cmd/peg-bootstrap/bootstrap.peg", "cmd/peg-bootstrap/peg.bootstrap.peg"}
	if thorough {
		rel = append(rel, "grammars/c/c.peg", "grammars/java/java_1_7.peg")
	}
	for _, f := range rel {
		if b, err := os.ReadFile(filepath.Join(e.RepoDir, f)); err == nil {
			out = append(out, GText{f, string(b)})
		}
	}
	if specs, err := e.loadCorpus(); err == nil {
		for _, s := range specs {
			out = append(out, GText{"corpus/" + s.Base, strings.ReplaceAll(s.Text, "zzPKG", "p")})
		}
	}
	for i := 0; i < nGen; i++ {
		g := workload.Generate(simrt.DeriveN(e.Seed, "c09-grammar", i), "p")
		out = append(out, GText{fmt.Sprintf("gen%d", i), g.Text()})
		// the same number of grammars without the well-formedness discipline
		w := workload.GenerateWild(simrt.DeriveN(e.Seed, "c09-wild", i), "p")
		out = append(out, GText{fmt.Sprintf("wild%d", i), w.Text()})
	}
	return out
}

// modulePackages returns, in dependency-free sorted order, the directories
// (relative to the module root) of the module's packages reachable from the
// given ones through imports.
func modulePackages(root string, start []string) []string {
	const mod = "github.com/pointlander/peg"
	seen := map[string]bool{}
	var visit func(rel string)
	visit = func(rel string) {
		if seen[rel] {
			return
		}
		seen[rel] = true
		ents, err := os.ReadDir(filepath.Join(root, rel))
		if err != nil {
			return
		}
		fset := token.NewFileSet()
		for _, en := range ents {
			n := en.Name()
			if en.IsDir() || !strings.HasSuffix(n, ".go") || strings.HasSuffix(n, "_test.go") {
				continue
			}
			f, err := parser.ParseFile(fset, filepath.Join(root, rel, n), nil, parser.ImportsOnly)
			if err != nil {
				continue
			}
			for _, im := range f.Imports {
				p := strings.Trim(im.Path.Value, "\"`")
				if strings.HasPrefix(p, mod+"/") && !strings.HasPrefix(p, mod+"/zzsim/simrt") {
					visit(strings.TrimPrefix(p, mod+"/"))
				}
			}
		}
	}
	for _, s := range start {
		visit(s)
	}
	var out []string
	for d := range seen {
		out = append(out, d)
	}
	sort.Strings(out)
	return out
}

// layered: n layers of E_i <- E_i+1 '+' E_i / E_i+1, whose recursion check
// visits the last layer 2^n times. Keep n small: the unchanged generator is
// exponential in time AND memory here (16 layers: 3 minutes and 64 GB).
func layered(n int) string {
	var sb strings.Builder
	sb.WriteString("package p\n\ntype T Peg {}\n\nStart <- E0 !.\n")
	for i := 0; i < n; i++ {
		fmt.Fprintf(&sb, "E%d <- E%d '+' E%d / E%d\n", i, i+1, i, i+1)
	}
	fmt.Fprintf(&sb, "E%d <- 'a' / '(' E0 ')' / Tail\nTail <- Tail 'x' / 'y'\n", n)
	return sb.String()
}

// layeredNoLR: the same tower without the left-recursive tail: the recursion
// check still takes 2^n steps (a second of real time for n = 18) but issues
// no warnings, so it stays cheap in memory. Long-running analyses are where
// time budgets and clocks creep in.
func layeredNoLR(n int) string {
	var sb strings.Builder
	sb.WriteString("package p\n\ntype T Peg {}\n\nStart <- E0 !.\n")
	for i := 0; i < n; i++ {
		fmt.Fprintf(&sb, "E%d <- E%d '+' E%d / E%d\n", i, i+1, i, i+1)
	}
	fmt.Fprintf(&sb, "E%d <- 'a' / '(' E0 ')'\n", n)
	return sb.String()
}

// manyRulesLR: well over a thousand rules with a left-recursive one every
// hundred or so (work that a generator might want to split into batches).
func manyRulesLR(n int) string {
	var sb strings.Builder
	sb.WriteString("package p\n\ntype T Peg {}\n\nS <- R0 !.\n")
	for i := 0; i < n; i++ {
		switch {
		case i+1 == n:
			fmt.Fprintf(&sb, "R%d <- 'z'\n", i)
		case i%97 == 5:
			fmt.Fprintf(&sb, "R%d <- R%d 'l' / 'a' R%d\n", i, i, i+1)
		default:
			fmt.Fprintf(&sb, "R%d <- 'a' R%d / 'b'\n", i, i+1)
		}
	}
	return sb.String()
}

// manyRules: more rules than a uint8 rule type can number.
func manyRules(n int) string {
	var sb strings.Builder
	sb.WriteString("package p\n\ntype T Peg {}\n\nS <- R0 !.\n")
	for i := 0; i < n; i++ {
		if i+1 < n {
			fmt.Fprintf(&sb, "R%d <- 'a' R%d / 'b' R%d?\n", i, i+1, (i*7+3)%n)
		} else {
			fmt.Fprintf(&sb, "R%d <- 'z'\n", i)
		}
	}
	return sb.String()
}

func buildGensim(e *Env, sc *Scratch, texts []GText, wantRace bool) (*gensimRig, error) {
	rig := &gensimRig{env: e, sc: sc, repo: sc.Path("repo"), wrepo: sc.Path("wrepo"), peg: sc.Path("peg"), pegRace: sc.Path("peg-race"),
		runner: sc.Path("gensim.test"), raceRunner: sc.Path("gensim-race.test"), workload: sc.Path("texts.json"), texts: texts}
	if err := CopyTree(e.RepoDir, rig.repo); err != nil {
		return nil, infra("copy %s: %v", e.RepoDir, err)
	}
	if err := CopyFrontEnd(rig.repo); err != nil {
		return nil, infra("front end: %v", err)
	}
	if err := e.CopySimrt(rig.repo, 0); err != nil {
		return nil, infra("simrt: %v", err)
	}
	if err := e.CopyRunner(rig.repo, "gensim"); err != nil {
		return nil, infra("runner: %v", err)
	}
	if err := CopyTree(rig.repo, rig.wrepo); err != nil {
		return nil, infra("copy: %v", err)
	}
	rig.weaver = &weave.Weaver{ModuleDir: rig.wrepo}
	// every package of the module that tree or the front end (transitively)
	// imports is woven, so that code moved or added by a change is covered too
	dirs := modulePackages(rig.wrepo, []string{"tree", "zzsim/frontend"})
	for _, d := range dirs {
		// statement-level yields in the generator itself; the front end (an emitted parser) keeps function-level ones
		opt := weave.Options{Yields: true, StmtYields: d != "zzsim/frontend", SyncTypes: true, Stderr: true, MapRanges: true, Procs: true, Clock: true}
		if err := rig.weaver.WeaveDir(filepath.Join(rig.wrepo, d), d, opt); err != nil {
			return nil, infra("weave %s: %v", d, err)
		}
	}
	if rig.weaver.Stats.TypeCheckError != "" {
		e.Logf("weaver type check: %s", rig.weaver.Stats.TypeCheckError)
	}
	if err := e.CopySimrt(rig.wrepo, len(rig.weaver.Sites)); err != nil {
		return nil, infra("simrt: %v", err)
	}
	_ = WriteSites(sc.Path("sites.json"), rig.weaver)
	wb, _ := json.Marshal(texts)
	if err := os.WriteFile(rig.workload, wb, 0o644); err != nil {
		return nil, err
	}
	var errs [4]error
	var wg sync.WaitGroup
	wg.Go(func() { errs[0] = e.BuildPeg(rig.repo, rig.peg, false) })
	wg.Go(func() {
		if o, err := e.Go(rig.wrepo, e.GoEnv(), "test", "-c", "-trimpath", "-tags", "zzsim", "-o", rig.runner, "./zzsim/gensim"); err != nil {
			errs[1] = infra("building the woven gensim runner failed: %v\n%s", err, clipStr(o, 4000))
		}
	})
	if wantRace {
		wg.Go(func() { errs[2] = e.BuildPeg(rig.repo, rig.pegRace, true) })
		wg.Go(func() {
			if o, err := e.Go(rig.repo, e.GoEnvRace(), "test", "-c", "-trimpath", "-race", "-tags", "zzsim", "-o", rig.raceRunner, "./zzsim/gensim"); err != nil {
				errs[3] = infra("building the -race gensim runner failed: %v\n%s", err, clipStr(o, 4000))
			}
		})
	}
	wg.Wait()
	for _, err := range errs {
		if err != nil {
			return nil, err
		}
	}
	e.Logf("gensim: %d texts, woven sites %d (map ranges %d, sync types %d, stderr writes %d)", len(texts), len(rig.weaver.Sites),
		rig.weaver.Stats.MapRangesWoven, rig.weaver.Stats.SyncReplaced, rig.weaver.Stats.StderrReplaced)
	return rig, nil
}

func (rig *gensimRig) runJob(job *GJob, race bool, timeout time.Duration) (*GJobResult, error) {
	rig.mu.Lock()
	rig.jobSeq++
	n := rig.jobSeq
	rig.mu.Unlock()
	job.Workload = rig.workload
	jp := rig.sc.Path(fmt.Sprintf("gjob-%d.json", n))
	op := rig.sc.Path(fmt.Sprintf("gout-%d.json", n))
	b, _ := json.Marshal(job)
	if err := os.WriteFile(jp, b, 0o644); err != nil {
		return nil, err
	}
	defer os.Remove(jp)
	defer os.Remove(op)
	bin := rig.runner
	env := append(os.Environ(), "VERIF_JOB="+jp, "VERIF_OUT="+op)
	env = append(env, job.Env...)
	if race {
		bin = rig.raceRunner
		env = append(env, "GORACE=halt_on_error=0 exitcode=66")
	}
	so, se, exit, err := RunCmd(timeout, rig.sc.Dir, env, nil, bin, "-test.run", "^TestSim$", "-test.timeout", "0", "-test.count", "1")
	if err != nil {
		return nil, infra("worker: %v\n%s", err, clipStr(string(se)+string(so), 3000))
	}
	if i := bytes.Index(se, []byte("VERIF-INFRA:")); i >= 0 {
		return nil, infra("worker: %s", firstLine(string(se[i:])))
	}
	out, rerr := os.ReadFile(op)
	if race && (exit == 66 || bytes.Contains(se, []byte("WARNING: DATA RACE")) || bytes.Contains(so, []byte("WARNING: DATA RACE"))) {
		res := &GJobResult{Skipped: map[string]int{}, Stats: map[string]int{}}
		if rerr == nil {
			_ = json.Unmarshal(out, res)
		}
		res.Violations = append(res.Violations, GViolation{Case: GCase{Race: true, Run: job.From},
			Outcome: POutcome{Class: "data_race", Detail: raceReport(string(se) + string(so))}})
		return res, nil
	}
	if exit != 0 || rerr != nil {
		return nil, workerCrash{fmt.Sprintf("worker exit %d (%v)\n%s", exit, rerr, clipStr(string(se)+string(so), 6000)), -1}
	}
	var res GJobResult
	if err := json.Unmarshal(out, &res); err != nil {
		return nil, infra("worker answer: %v", err)
	}
	return &res, nil
}

type gensimAgg struct {
	parsimAgg
	GViol     []GViolation
	GSamples  []GCase
	MapRanges uint64
	MapUnctl  uint64
}

func (rig *gensimRig) sweep(seed uint64, total int, race bool, chunk int, timeout time.Duration) (*gensimAgg, error) {
	return rig.sweepRange(seed, 0, total, race, chunk, timeout)
}

func (rig *gensimRig) sweepRange(seed uint64, lo, total int, race bool, chunk int, timeout time.Duration) (*gensimAgg, error) {
	agg := &gensimAgg{parsimAgg: *newAgg()}
	var mu sync.Mutex
	nchunks := (total - lo + chunk - 1) / chunk
	err := ParallelDo(nchunks, rig.env.Jobs, func(i int) error {
		from, to := lo+i*chunk, min(total, lo+(i+1)*chunk)
		res, err := rig.runJob(&GJob{Seed: seed, From: from, To: to, Race: race, MaxViol: 3}, race, timeout)
		if err != nil {
			if wc, ok := err.(workerCrash); ok {
				for k := from; k < to; k++ {
					_, e2 := rig.runJob(&GJob{Seed: seed, From: k, To: k + 1, Race: race}, race, timeout)
					if w2, ok := e2.(workerCrash); ok {
						mu.Lock()
						agg.GViol = append(agg.GViol, GViolation{Case: GCase{Run: k, Race: race}, Outcome: POutcome{Class: "crash", Detail: "the runner process died on this case:\n" + clipStr(w2.msg, 2500)}})
						mu.Unlock()
						return nil
					} else if e2 != nil {
						return e2
					}
				}
				return infra("worker crashed but no single case reproduces it:\n%s", clipStr(wc.msg, 3000))
			}
			return err
		}
		mu.Lock()
		agg.add(&PJobResult{Runs: res.Runs, Skipped: res.Skipped, Nontrivial: res.Nontrivial, Sigs: res.Sigs, Stats: res.Stats, Adjacent: res.Adjacent, GoidFast: res.GoidFast, NSites: res.NSites})
		agg.GViol = append(agg.GViol, res.Violations...)
		if len(agg.GSamples) < 3 {
			agg.GSamples = append(agg.GSamples, res.Samples...)
		}
		agg.MapRanges += res.MapRanges
		agg.MapUnctl += res.MapUnctl
		mu.Unlock()
		return nil
	})
	return agg, err
}

func (rig *gensimRig) runExplicit(cases []GCase, race, keepLog bool) ([]POutcome, error) {
	res, err := rig.runJob(&GJob{Explicit: cases, Race: race, KeepLog: keepLog}, race, 15*time.Minute)
	if err != nil {
		return nil, err
	}
	return res.Outcomes, nil
}

func cloneG(c GCase) GCase {
	b, _ := json.Marshal(c)
	var d GCase
	_ = json.Unmarshal(b, &d)
	return d
}

func (rig *gensimRig) shrink(v GViolation) GViolation {
	if v.Case.Race || v.Outcome.Class == "crash" || v.Outcome.Class == "data_race" {
		return v
	}
	deadline := time.Now().Add(120 * time.Second)
	for round := 0; round < 30 && time.Now().Before(deadline); round++ {
		var cands []GCase
		c := v.Case
		for i := range c.Clients {
			if len(c.Clients) > 1 {
				d := cloneG(c)
				d.Clients = append(d.Clients[:i], d.Clients[i+1:]...)
				cands = append(cands, d)
			}
		}
		if c.FreezeAt > 0 {
			d := cloneG(c)
			d.FreezeAt = 0
			cands = append(cands, d)
		}
		if c.Procs > 1 {
			d := cloneG(c)
			d.Procs = 1
			cands = append(cands, d)
		}
		if c.MapSeed != 0 && v.Outcome.Class != "map_order" {
			d := cloneG(c)
			d.MapSeed = 0
			cands = append(cands, d)
		}
		for _, t := range tapeCands(c.SchedTape) {
			d := cloneG(c)
			d.SchedTape = t
			cands = append(cands, d)
		}
		for i, cl := range c.Clients {
			for _, f := range []func(*GClient) bool{
				func(g *GClient) bool { ch := g.Switch; g.Switch = false; return ch },
				func(g *GClient) bool { ch := g.Inline; g.Inline = false; return ch },
				func(g *GClient) bool { ch := g.NoAst; g.NoAst = false; return ch },
				func(g *GClient) bool { ch := g.Strict; g.Strict = false; return ch },
			} {
				g := cl
				if f(&g) {
					d := cloneG(c)
					d.Clients[i] = g
					cands = append(cands, d)
				}
			}
		}
		if len(cands) == 0 {
			break
		}
		progressed := false
		batch := 16
		if v.Case.Cold {
			batch = 1
			if len(cands) > 40 {
				cands = cands[:40]
			}
		}
		for lo := 0; lo < len(cands) && !progressed; lo += batch {
			hi := min(len(cands), lo+batch)
			outs, err := rig.runExplicit(cands[lo:hi], false, false)
			if err != nil || len(outs) != hi-lo {
				return v
			}
			for i, o := range outs {
				if o.Class == v.Outcome.Class {
					v.Case, v.Outcome = cands[lo+i], o
					progressed = true
					break
				}
			}
		}
		if !progressed {
			break
		}
	}
	return v
}

type gensimReplay struct {
	Rebuild string        `json:"rebuild"` // "texts" | "full"
	Case    *GCase        `json:"case,omitempty"`
	Texts   []GText       `json:"texts,omitempty"`
	Process *procCase     `json:"process,omitempty"`
	Race    bool          `json:"race,omitempty"`
	Log     []simrt.Event `json:"schedule_log,omitempty"`
}

var reHex = regexp.MustCompile(`0x[0-9a-fA-F]+\??`)

type procCase struct {
	Text GText    `json:"text"`
	Opts []string `json:"opts"`
}

func fnv64(b []byte) uint64 {
	h := fnv.New64a()
	h.Write(b)
	return h.Sum64()
}

// processTier runs the real binary in fresh OS processes with several
// GOMAXPROCS values (and, when built, the -race binary) on every (text,
// option set) and compares output and stderr with each other and with the
// woven runner's sequential result.
func (rig *gensimRig) processTier(optSets [][]string, withRace bool) (runs int, validated int, viols []Violation, err error) {
	type item struct {
		ti   int
		opts []string
	}
	var items []item
	for ti := range rig.texts {
		for _, o := range optSets {
			items = append(items, item{ti, o})
		}
	}
	seen := map[string]bool{}
	type obs struct {
		out    []byte
		stderr string
		exit   int
		how    string
	}
	allObs := make([][]obs, len(items))
	var mu sync.Mutex
	err = ParallelDo(len(items), rig.env.Jobs, func(i int) error {
		it := items[i]
		dir := rig.sc.Path("proc", fmt.Sprintf("p%05d", i))
		if err := os.MkdirAll(dir, 0o755); err != nil {
			return err
		}
		defer os.RemoveAll(dir)
		if err := os.WriteFile(filepath.Join(dir, "in.peg"), []byte(rig.texts[it.ti].Text), 0o644); err != nil {
			return err
		}
		args := append(append([]string{}, it.opts...), "-output", "out.go", "in.peg")
		var all []obs
		// Besides GOMAXPROCS, everything else the environment hands a process
		// and that must not leak into the output is varied between the runs
		// of one item: the working directory (same relative names), HOME, TZ,
		// LANG, TMPDIR and an unrelated variable, the process id (always), and
		// for one item in eight the wall-clock second.
		runOne := func(bin string, procs string, how string) error {
			wd := dir
			env := append(os.Environ(), "GOMAXPROCS="+procs, "GORACE=halt_on_error=0 exitcode=66")
			switch procs {
			case "2":
				wd = filepath.Join(dir, "elsewhere", "deeper")
				if err := os.MkdirAll(wd, 0o755); err != nil {
					return err
				}
				if err := CopyFile(filepath.Join(dir, "in.peg"), filepath.Join(wd, "in.peg")); err != nil {
					return err
				}
				how += ", other working directory"
			case "16":
				env = append(env, "HOME=/nonexistent-home", "TZ=Pacific/Kiritimati", "LANG=tlh_QO.UTF-8", "TMPDIR=/nonexistent-tmp", fmt.Sprintf("VERIF_UNRELATED=%d", i))
				how += ", other HOME/TZ/LANG/TMPDIR"
				if i%8 == 3 {
					time.Sleep(1100 * time.Millisecond)
					how += ", a second later"
				}
			}
			os.Remove(filepath.Join(wd, "out.go"))
			_, se, exit, err := RunCmd(10*time.Minute, wd, env, nil, bin, args...)
			if err != nil {
				return infra("peg: %v", err)
			}
			b, _ := os.ReadFile(filepath.Join(wd, "out.go"))
			all = append(all, obs{b, string(se), exit, how})
			return nil
		}
		for _, p := range []string{"1", "2", "16"} {
			if err := runOne(rig.peg, p, "GOMAXPROCS="+p); err != nil {
				return err
			}
		}
		if withRace {
			if err := runOne(rig.pegRace, "8", "-race build, GOMAXPROCS=8"); err != nil {
				return err
			}
		}
		mu.Lock()
		allObs[i] = all
		runs += len(all)
		mu.Unlock()
		return nil
	})
	if err != nil {
		return
	}
	// A text on which the generator itself panics (a diagnostic defect, not a
	// determinism question) cannot be part of the simulated workload: a panic
	// inside an analysis goroutine would take the whole runner down. Such
	// texts are replaced by a placeholder and counted.
	crashed := map[int]bool{}
	for i, all := range allObs {
		for _, o := range all {
			if o.exit == 2 && strings.Contains(o.stderr, "panic:") {
				crashed[items[i].ti] = true
			}
		}
	}
	if len(crashed) > 0 {
		for ti := range crashed {
			rig.excluded = append(rig.excluded, rig.texts[ti].Name)
			rig.texts[ti] = GText{Name: "excluded:" + rig.texts[ti].Name, Text: "package p\n\ntype T Peg {}\n\nS <- 'a' S / !.\n"}
		}
		sort.Strings(rig.excluded)
		wb, _ := json.Marshal(rig.texts)
		if err = os.WriteFile(rig.workload, wb, 0o644); err != nil {
			return
		}
	}
	// sequential results of the woven build
	nshard := rig.env.Jobs
	soloRes := map[string]GGenResult{}
	err = ParallelDo(nshard, rig.env.Jobs, func(i int) error {
		res, err := rig.runJob(&GJob{Solo: true, From: i, To: nshard}, false, 30*time.Minute)
		if err != nil {
			return err
		}
		mu.Lock()
		for _, r := range res.Solo {
			soloRes[fmt.Sprintf("%d|%s", r.Text, r.Opts)] = r
		}
		mu.Unlock()
		return nil
	})
	if err != nil {
		if wc, ok := err.(workerCrash); ok {
			return 0, 0, nil, infra("woven runner crashed in sequential mode: %s", clipStr(wc.msg, 2000))
		}
		return 0, 0, nil, err
	}
	for i := range items {
		it := items[i]
		all := allObs[i]
		if crashed[it.ti] {
			continue
		}
		args := append(append([]string{}, it.opts...), "-output", "out.go", "in.peg")
		name := rig.texts[it.ti].Name
		pc := &procCase{Text: rig.texts[it.ti], Opts: it.opts}
		add := func(class, detail string) {
			k := class + "|" + name
			if !seen[k] {
				seen[k] = true
				viols = append(viols, Violation{Property: "C09", Class: class, Key: name + " [" + strings.Join(it.opts, " ") + "]", Detail: detail,
					Replay: gensimReplay{Rebuild: "full", Process: pc}})
			}
		}
		// log time stamps and, when the generator crashes, the addresses in
		// the Go panic trace differ between processes by nature
		stripStamp := func(s string) string {
			var ls []string
			for _, l := range strings.Split(s, "\n") {
				ls = append(ls, reHex.ReplaceAllString(reStamp.ReplaceAllString(l, ""), "0x?"))
			}
			return strings.Join(ls, "\n")
		}
		for _, o := range all {
			if strings.Contains(o.stderr, "WARNING: DATA RACE") {
				add("data_race", fmt.Sprintf("peg %s on %s (%s):\n%s", strings.Join(args, " "), name, o.how, raceReport(o.stderr)))
				goto next
			}
		}
		for _, o := range all[1:] {
			if !bytes.Equal(o.out, all[0].out) || stripStamp(o.stderr) != stripStamp(all[0].stderr) || o.exit != all[0].exit {
				add("process_dependent_output", fmt.Sprintf("peg %s on %s: %s gives %d bytes (fnv %016x) exit %d stderr %q, %s gives %d bytes (fnv %016x) exit %d stderr %q",
					strings.Join(args, " "), name, all[0].how, len(all[0].out), fnv64(all[0].out), all[0].exit, clipStr(all[0].stderr, 300),
					o.how, len(o.out), fnv64(o.out), o.exit, clipStr(o.stderr, 300)))
				goto next
			}
		}
		// woven sequential result equals the real binary (validates the weaving)
		if r, ok := soloRes[fmt.Sprintf("%d|%s", it.ti, strings.Join(it.opts, " "))]; ok && r.Panic == "" {
			real := all[0]
			okOut := (real.exit != 0 && r.Err != "") || (real.exit == 0 && r.Err == "" && len(real.out) == r.OutLen && fnv64(real.out) == r.OutSum)
			if real.exit == 0 && stripStamp(real.stderr) != r.Stderr {
				okOut = false
			}
			if !okOut {
				add("weaving_changes_behaviour", fmt.Sprintf("INFRASTRUCTURE: woven sequential run differs from the real binary on %s [%s]: real exit %d, %d bytes, stderr %q; woven: %s",
					name, strings.Join(it.opts, " "), real.exit, len(real.out), clipStr(real.stderr, 200), fmt.Sprintf("%d bytes err %q stderr %q", r.OutLen, clipStr(r.Err, 200), clipStr(r.Stderr, 200))))
			} else {
				validated++
			}
		}
	next:
	}
	return
}

// CheckC09: generation is deterministic and race-free.
func CheckC09(e *Env) (int, error) {
	thorough := e.Tier == "thorough"
	nGen, runs, raceRuns, chunk := 16, 1600, 160, 25
	coldRuns := 96
	optSets := [][]string{{}, {"-inline", "-switch"}, {"-strict"}, {"-switch", "-noast"}}
	if thorough {
		nGen, runs, raceRuns, chunk = 80, 40000, 3000, 200
		coldRuns = 1500
		optSets = [][]string{{}, {"-inline"}, {"-switch"}, {"-inline", "-switch"}, {"-strict"}, {"-noast"}, {"-switch", "-noast"}, {"-inline", "-switch", "-strict"}}
	}
	sc, err := NewScratch("c09")
	if err != nil {
		return 2, err
	}
	defer sc.Remove()
	texts := e.gensimTexts(nGen, thorough)
	rig, err := buildGensim(e, sc, texts, true)
	if err != nil {
		return 2, err
	}
	buildS := time.Since(e.Start).Seconds()
	procRuns, validated, pviols, err := rig.processTier(optSets, true)
	if err != nil {
		return 2, err
	}
	// A difference between the woven sequential run and the real binary is
	// either a defect of the weaving (infrastructure) or the very
	// nondeterminism the property forbids, showing up between two builds. It is
	// decided at the end: if the simulation or the process tier found a
	// violation, that is reported; otherwise the mismatch is an infrastructure
	// failure (exit 2) and nothing is claimed.
	var weaveMismatch []Violation
	{
		var keep []Violation
		for _, v := range pviols {
			if v.Class == "weaving_changes_behaviour" {
				weaveMismatch = append(weaveMismatch, v)
			} else {
				keep = append(keep, v)
			}
		}
		pviols = keep
	}
	e.Logf("process tier done: %d runs, %d validated", procRuns, validated)
	agg, err := rig.sweep(e.Seed, runs, false, chunk, 60*time.Minute)
	if err != nil {
		return 2, err
	}
	e.Logf("sweep done: %d runs", agg.Runs)
	raceAgg, err := rig.sweep(e.Seed, raceRuns, true, max(4, raceRuns/(e.Jobs*2)), 60*time.Minute)
	if err != nil {
		return 2, err
	}
	e.Logf("race sweep done: %d runs", raceAgg.Runs)
	agg.GViol = append(agg.GViol, raceAgg.GViol...)
	// cold starts: one multi-client case per process, concurrent run first
	const coldBase = 1_000_000
	cold, err := rig.sweepRange(e.Seed, coldBase, coldBase+coldRuns, false, 1, 60*time.Minute)
	if err != nil {
		return 2, err
	}
	coldRace, err := rig.sweepRange(e.Seed, coldBase, coldBase+coldRuns, true, 1, 60*time.Minute)
	if err != nil {
		return 2, err
	}
	agg.parsimAgg.merge(&cold.parsimAgg)
	agg.GViol = append(agg.GViol, cold.GViol...)
	agg.GViol = append(agg.GViol, coldRace.GViol...)
	e.Logf("cold sweeps done: %d + %d runs", cold.Runs, coldRace.Runs)
	viols := pviols
	seen := map[string]bool{}
	for _, v := range agg.GViol {
		var names []string
		for _, cl := range v.Case.Clients {
			if cl.Text < len(texts) {
				names = append(names, texts[cl.Text].Name)
			}
		}
		sort.Strings(names)
		k := v.Outcome.Class + "|" + strings.Join(dedup(names), ",")
		if v.Outcome.Class == "data_race" {
			k = "data_race|" + raceKey(v.Outcome.Detail)
		}
		if seen[k] || len(viols) >= 8 {
			continue
		}
		seen[k] = true
		switch v.Outcome.Class {
		case "data_race", "crash":
			key := raceKey(v.Outcome.Detail)
			if v.Outcome.Class == "crash" {
				key = fmt.Sprintf("run=%d", v.Case.Run)
			}
			viols = append(viols, Violation{Property: "C09", Class: v.Outcome.Class, Key: key, Detail: v.Outcome.Detail, Replay: gensimReplay{Rebuild: "full", Race: v.Case.Race}})
		default:
			sv := rig.shrink(v)
			outs, err := rig.runExplicit([]GCase{sv.Case}, false, true)
			if err == nil && len(outs) == 1 && outs[0].Class == sv.Outcome.Class {
				sv.Outcome = outs[0]
			}
			c := sv.Case
			// the replay carries only the texts it needs
			rp := gensimReplay{Rebuild: "texts", Case: &c, Log: sv.Outcome.Log}
			remap := map[int]int{}
			var ns []string
			for i := range c.Clients {
				ti := c.Clients[i].Text
				if _, ok := remap[ti]; !ok {
					remap[ti] = len(rp.Texts)
					rp.Texts = append(rp.Texts, texts[ti])
					ns = append(ns, texts[ti].Name)
				}
				c.Clients[i].Text = remap[ti]
			}
			sort.Strings(ns)
			viols = append(viols, Violation{Property: "C09", Class: sv.Outcome.Class, Key: strings.Join(ns, ","), Detail: sv.Outcome.Detail, Replay: rp})
		}
	}
	if len(weaveMismatch) > 0 && len(viols) == 0 {
		return 2, infra("%s", weaveMismatch[0].Detail)
	}
	wall := time.Since(e.Start).Seconds()
	st := rig.weaver.Stats
	cov := map[string]any{
		"woven_vs_real_mismatches":      len(weaveMismatch),
		"evaluations":                   agg.Runs + procRuns,
		"distinct_nontrivial":           len(agg.Sigs),
		"rule":                          "simulated runs: 1 client (the caller and the two analysis goroutines of one Compile: 3 tasks) or 2–4 clients generating independent grammars, the seeded scheduler releasing one parked goroutine per step at yield sites woven into every function, closure and loop of tree, set and the front end; half of the runs also permute every map iteration; each client's output bytes, error and warning text must equal its own sequential run; non-trivial = at least one preemption, distinct = distinct schedule-log digest. Process tier: the real binary in fresh processes with GOMAXPROCS 1, 2, 16 and a -race build on every (text, option set), outputs and stderr compared byte for byte and with the woven sequential result",
		"samples":                       gsamples(agg.GSamples, texts),
		"simulated_runs":                agg.Runs,
		"process_runs":                  procRuns,
		"race_detector_runs":            raceAgg.Runs,
		"race_detector_note":            "8 free-running goroutines per run on an unwoven -race build, and the -race peg binary in the process tier: runtime monitoring, reported separately",
		"traces_validated_against_impl": validated,
		"texts":                         len(texts),
		"option_sets":                   len(optSets),
		"scheduler_steps":               agg.Stats["sched_steps"],
		"context_switches":              agg.Stats["sched_switches"],
		"preemptions":                   agg.Stats["sched_preemptions"],
		"runs_with_concurrent_window":   agg.Stats["runs_with_concurrent_window"],
		"adopted_goroutines":            agg.Stats["adopted_goroutines"],
		"ambiguous_adoptions":           agg.Stats["ambiguous_adoptions"],
		"runs_abandoned_at_step_cap":    agg.Stats["abandoned"],
		"distinct_site_adjacency_pairs": len(agg.Adjacent),
		"map_ranges_in_source":          st.MapRangesSeen,
		"map_ranges_executed_permuted":  agg.MapRanges,
		"map_ranges_uncontrolled":       agg.MapUnctl,
		"woven_yield_sites":             st.YieldSites,
		"woven_sync_types":              st.SyncReplaced,
		"woven_stderr_writes":           st.StderrReplaced,
		"skipped":                       agg.Skipped,
		"runs_per_hour":                 int(float64(agg.Runs) / (wall - buildS + 0.001) * 3600),
		"build_s":                       int(buildS),
		"seeds":                         1,
		"goid_fast_path":                agg.GoidFast,
		"simulated_time":                "n/a — the system under test reads no clock; progress is measured in scheduler steps",
		"components_real":               []string{"tree.Compile, package set and the self-hosted front end (peg.peg.go) from /repo's working tree, with woven yield calls", "the real peg binary (process tier)"},
		"components_stub":               []string{"sync.Mutex/RWMutex/Once would be replaced by scheduler-aware equivalents if the code used them (it uses sync.WaitGroup, which blocks durably inside the bubble and is left real)", "os.Stderr inside fmt.Fprint* calls of package tree is redirected to a per-client buffer"},
	}
	if st.TypeCheckError != "" {
		cov["weaver_typecheck_note"] = clipStr(st.TypeCheckError, 300)
	}
	ev := &Evidence{PropertyID: "C09", Level: "exploration", Violations: len(viols), Coverage: cov,
		Assumptions: []string{
			"between two woven yields a goroutine runs uninterrupted: interleavings finer than a function call or loop iteration are left to the -race tier",
			"map iteration over pointer- or interface-keyed maps cannot be given a canonical order; such ranges are counted as uncontrolled",
		}}
	if err := e.WriteEvidence(ev); err != nil {
		return 2, err
	}
	exit, n := e.Report("gensim", "C09", viols)
	fmt.Printf("C09 %s: %d simulated runs (%d non-trivial, %d distinct), %d process runs (%d validated against the woven build), %d race-tier runs, %d texts, %d violation(s), %.1fs (build %.1fs)\n",
		e.Tier, agg.Runs, agg.Nontrivial, len(agg.Sigs), procRuns, validated, raceAgg.Runs, len(texts), n, wall, buildS)
	return exit, nil
}

func gsamples(cs []GCase, texts []GText) []any {
	var out []any
	for i, c := range cs {
		if i >= 3 {
			break
		}
		var cl []string
		for _, x := range c.Clients {
			cl = append(cl, fmt.Sprintf("%s %v", texts[x.Text].Name, x.opts()))
		}
		out = append(out, map[string]any{"run": c.Run, "clients": cl, "budget": c.Budget, "active": fmt.Sprintf("%d/%d", c.ActiveNum, c.ActiveDen), "map_seed": c.MapSeed, "tape_prefix": c.SchedTape})
	}
	if len(out) == 0 {
		out = append(out, "no non-trivial case in this run")
	}
	return out
}

// ReplayGensim re-executes a gensim replay file.
func ReplayGensim(e *Env, rf *ReplayFile) (int, error) {
	var rp gensimReplay
	if err := json.Unmarshal(rf.Payload, &rp); err != nil {
		return 2, err
	}
	path := e.replayPath()
	if rp.Rebuild == "texts" && rp.Case != nil {
		sc, err := NewScratch("replay")
		if err != nil {
			return 2, err
		}
		defer sc.Remove()
		rig, err := buildGensim(e, sc, rp.Texts, false)
		if err != nil {
			return 2, err
		}
		outs, err := rig.runExplicit([]GCase{*rp.Case}, false, true)
		if err != nil {
			if wc, ok := err.(workerCrash); ok {
				fmt.Printf("VIOLATION property=C09 replay=%s\n  class=crash\n  %s\n", path, clipStr(wc.msg, 2000))
				return 1, nil
			}
			return 2, err
		}
		o := outs[0]
		if o.Skipped != "" {
			return 2, infra("replay inconclusive: %s", o.Skipped)
		}
		if o.Class != "" {
			fmt.Printf("VIOLATION property=C09 replay=%s\n  class=%s\n  %s\n", path, o.Class, strings.ReplaceAll(o.Detail, "\n", "\n  "))
			return 1, nil
		}
		fmt.Println("replay C09: property held on this case")
		return 0, nil
	}
	fmt.Printf("replay C09: class %s is replayed by re-running the %s tier with seed %d\n", rf.Class, e.Tier, e.Seed)
	return CheckC09(e)
}
