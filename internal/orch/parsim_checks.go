package orch

import (
	"encoding/json"
	"fmt"
	"sort"
	"strings"
	"sync"
	"time"

	"verif/internal/simrt"
)

type parsimReplay struct {
	Rebuild  string        `json:"rebuild"` // "grammars": only the listed grammars are rebuilt; "full": the tier's whole workload
	Case     *PCase        `json:"case,omitempty"`
	Grammars []GrammarInfo `json:"grammars,omitempty"`
	Mode     string        `json:"mode,omitempty"`
	From     int           `json:"from,omitempty"`
	To       int           `json:"to,omitempty"`
	Race     bool          `json:"race,omitempty"`
	Log      []simrt.Event `json:"schedule_log,omitempty"` // minimised schedule, for the reader (replay recomputes it)
}

func (rig *parsimRig) info(name string) *GrammarInfo {
	for i := range rig.infos {
		if rig.infos[i].Name == name {
			return &rig.infos[i]
		}
	}
	return nil
}

func caseGrammars(c *PCase) []string {
	var out []string
	if c.Grammar != "" {
		out = append(out, c.Grammar)
	}
	if c.Prog != nil {
		out = append(out, c.Prog.Grammar)
	}
	for _, p := range c.Clients {
		out = append(out, p.Grammar)
	}
	sort.Strings(out)
	return dedup(out)
}

// runExplicit runs explicit cases in one worker and returns their outcomes.
func (rig *parsimRig) runExplicit(cases []PCase, race bool, keepLog bool) ([]POutcome, error) {
	if len(cases) == 0 {
		return nil, nil
	}
	res, err := rig.runJob(&PJob{Mode: cases[0].Mode, Explicit: cases, Race: race, KeepLog: keepLog}, race, 10*time.Minute)
	if err != nil {
		return nil, err
	}
	return res.Outcomes, nil
}

func cloneCase(c PCase) PCase {
	b, _ := json.Marshal(c)
	var d PCase
	_ = json.Unmarshal(b, &d)
	return d
}

func shorter(s string) []string {
	rs := []rune(s)
	var out []string
	if len(rs) == 0 {
		return nil
	}
	if len(rs) > 4 {
		out = append(out, string(rs[:len(rs)/2]), string(rs[len(rs)/2:]))
	}
	for i := range rs {
		if len(out) > 12 {
			break
		}
		out = append(out, string(append(append([]rune{}, rs[:i]...), rs[i+1:]...)))
	}
	return out
}

func tapeCands(t []uint32) [][]uint32 {
	var out [][]uint32
	n := len(t)
	if n == 0 {
		return nil
	}
	// truncate
	for _, k := range []int{0, n / 8, n / 4, n / 2, n * 3 / 4} {
		if k < n {
			out = append(out, append([]uint32{}, t[:k]...))
		}
	}
	// zero blocks
	for _, parts := range []int{2, 4, 8, 16} {
		sz := (n + parts - 1) / parts
		for p := 0; p < parts; p++ {
			lo, hi := p*sz, min(n, (p+1)*sz)
			if lo >= hi {
				continue
			}
			nz := false
			for _, v := range t[lo:hi] {
				if v != 0 {
					nz = true
				}
			}
			if !nz {
				continue
			}
			c := append([]uint32{}, t...)
			for i := lo; i < hi; i++ {
				c[i] = 0
			}
			out = append(out, c)
		}
	}
	// zero single non-zero entries (when few are left)
	nzs := 0
	for _, v := range t {
		if v != 0 {
			nzs++
		}
	}
	if nzs <= 24 {
		for i, v := range t {
			if v != 0 {
				c := append([]uint32{}, t...)
				c[i] = 0
				out = append(out, c)
			}
		}
	}
	return out
}

func progCands(p PProg) []PProg {
	var out []PProg
	cp := func() PProg {
		q := p
		q.Steps = append([]PStep{}, p.Steps...)
		return q
	}
	for i := range p.Steps {
		if len(p.Steps) > 1 {
			q := cp()
			q.Steps = append(q.Steps[:i], q.Steps[i+1:]...)
			out = append(out, q)
		}
	}
	if p.Cfg.U != 0 || p.Cfg.Size != 0 || p.Cfg.Pretty || p.Cfg.ShareOpts || p.Cfg.OptOrder != 0 {
		q := cp()
		q.Cfg.U, q.Cfg.Size, q.Cfg.Pretty, q.Cfg.ShareOpts, q.Cfg.OptOrder = 0, 0, false, false, 0
		out = append(out, q)
	}
	if p.Cfg.ShareOpts {
		q := cp()
		q.Cfg.ShareOpts = false
		out = append(out, q)
	}
	for i, st := range p.Steps {
		if st.AbortAct+st.AbortPred > 0 {
			q := cp()
			q.Steps[i].AbortAct, q.Steps[i].AbortPred = 0, 0
			out = append(out, q)
		}
		if st.Exec || st.AST || st.Tree {
			q := cp()
			q.Steps[i].Exec, q.Steps[i].AST, q.Steps[i].Tree = false, false, false
			out = append(out, q)
		}
		if st.Entry >= 0 {
			q := cp()
			q.Steps[i].Entry = -1
			out = append(out, q)
		}
		for _, s := range shorter(st.Input) {
			q := cp()
			q.Steps[i].Input = s
			out = append(out, q)
		}
	}
	return out
}

func caseCands(c PCase) []PCase {
	var out []PCase
	switch c.Mode {
	case "c06":
		for _, t := range tapeCands(c.FaultTape) {
			d := cloneCase(c)
			d.FaultTape = t
			out = append(out, d)
		}
		for _, f := range []func(*PCase) bool{
			func(d *PCase) bool { ch := d.FaultCfg.Evict != 0; d.FaultCfg.Evict = 0; return ch },
			func(d *PCase) bool { ch := d.FaultCfg.Miss != 0; d.FaultCfg.Miss = 0; return ch },
			func(d *PCase) bool { ch := d.FaultCfg.Drop != 0; d.FaultCfg.Drop = 0; return ch },
			func(d *PCase) bool {
				ch := d.Cfg.U != 0 || d.Cfg.Size != 0 || d.Cfg.Pretty
				d.Cfg.U, d.Cfg.Size, d.Cfg.Pretty = 0, 0, false
				return ch
			},
			func(d *PCase) bool { ch := d.Entry >= 0; d.Entry = -1; return ch },
		} {
			d := cloneCase(c)
			if f(&d) {
				out = append(out, d)
			}
		}
		for _, s := range shorter(c.Input) {
			d := cloneCase(c)
			d.Input = s
			out = append(out, d)
		}
		for i := range c.History {
			if len(c.History) > 1 {
				d := cloneCase(c)
				d.History = append(d.History[:i], d.History[i+1:]...)
				out = append(out, d)
			}
		}
	case "c12":
		for _, q := range progCands(*c.Prog) {
			d := cloneCase(c)
			qq := q
			d.Prog = &qq
			out = append(out, d)
		}
	case "c14":
		if c.HandoffAfter > 0 {
			d := cloneCase(c)
			d.HandoffAfter = 0
			out = append(out, d)
		}
		if c.FreezeAt > 0 {
			d := cloneCase(c)
			d.FreezeAt = 0
			out = append(out, d)
			if c.FreezeAt > 1 {
				d = cloneCase(c)
				d.FreezeAt = c.FreezeAt / 2
				out = append(out, d)
			}
		}
		for i := range c.Clients {
			if len(c.Clients) > 2 {
				d := cloneCase(c)
				d.Clients = append(d.Clients[:i], d.Clients[i+1:]...)
				out = append(out, d)
			}
		}
		for _, t := range tapeCands(c.SchedTape) {
			d := cloneCase(c)
			d.SchedTape = t
			out = append(out, d)
		}
		for i := range c.Clients {
			for _, q := range progCands(c.Clients[i]) {
				d := cloneCase(c)
				d.Clients[i] = q
				out = append(out, d)
			}
		}
	}
	return out
}

// shrink minimises a violating case while the same violation class recurs.
func (rig *parsimRig) shrink(v PViolation, race bool) PViolation {
	if v.Case.Race || v.Outcome.Class == "crash" || v.Outcome.Class == "data_race" {
		return v
	}
	deadline := time.Now().Add(90 * time.Second)
	for round := 0; round < 40 && time.Now().Before(deadline); round++ {
		cands := caseCands(v.Case)
		if len(cands) == 0 {
			break
		}
		progressed := false
		batch := 40
		if v.Case.Cold {
			batch = 1 // a cold case must be the first of its process
			if len(cands) > 60 {
				cands = cands[:60]
			}
		}
		for lo := 0; lo < len(cands) && !progressed; lo += batch {
			hi := min(len(cands), lo+batch)
			outs, err := rig.runExplicit(cands[lo:hi], race, false)
			if err != nil || len(outs) != hi-lo {
				return v
			}
			for i, o := range outs {
				if o.Class == v.Outcome.Class {
					v.Case, v.Outcome = cands[lo+i], o
					progressed = true
					break
				}
			}
		}
		if !progressed {
			break
		}
	}
	return v
}

// toViolations shrinks, verifies replayability and packages violations.
func (rig *parsimRig) toViolations(prop string, pv []PViolation) []Violation {
	// one representative per (class, grammar base) to bound the work
	seen := map[string]bool{}
	var out []Violation
	for _, v := range pv {
		gs := caseGrammars(&v.Case)
		k := v.Outcome.Class + "|" + strings.Join(gs, ",")
		if v.Outcome.Class == "data_race" {
			k = v.Outcome.Class + "|" + raceKey(v.Outcome.Detail)
		}
		if seen[k] || len(out) >= 8 {
			continue
		}
		seen[k] = true
		rp := parsimReplay{}
		key := ""
		detail := v.Outcome.Detail
		switch v.Outcome.Class {
		case "data_race", "crash":
			rp = parsimReplay{Rebuild: "full", Mode: v.Case.Mode, From: v.Case.Run, To: v.Case.Run + 1, Race: v.Case.Race}
			if v.Outcome.Class == "data_race" {
				// the job range is not known per case: replay the tier's race sweep
				rp.From, rp.To = 0, 0
				key = raceKey(v.Outcome.Detail)
			} else {
				key = fmt.Sprintf("%s run=%d", v.Case.Mode, v.Case.Run)
				if v.Case.RunTo > v.Case.Run {
					rp.To = v.Case.RunTo
				}
			}
		default:
			sv := rig.shrink(v, false)
			// replay once more in a fresh process, with the schedule log kept
			outs, err := rig.runExplicit([]PCase{sv.Case}, false, true)
			if err == nil && len(outs) == 1 && outs[0].Class == sv.Outcome.Class {
				sv.Outcome = outs[0]
			} else if err == nil && len(outs) == 1 {
				detail += fmt.Sprintf("\n  note: the minimised case gave class %q when replayed in a fresh process", outs[0].Class)
			}
			c := sv.Case
			rp = parsimReplay{Rebuild: "grammars", Case: &c, Log: sv.Outcome.Log}
			for _, g := range caseGrammars(&c) {
				if gi := rig.info(g); gi != nil {
					rp.Grammars = append(rp.Grammars, *gi)
				}
			}
			detail = sv.Outcome.Detail
			key = strings.Join(caseGrammars(&c), ",")
		}
		out = append(out, Violation{Property: prop, Class: v.Outcome.Class, Key: key, Detail: detail, Replay: rp})
	}
	return out
}

func sortedKeys(m map[string]int) []string {
	var ks []string
	for k := range m {
		ks = append(ks, k)
	}
	sort.Strings(ks)
	return ks
}

func sumPrefix(m map[string]int, prefix string) map[string]int {
	out := map[string]int{}
	for k, v := range m {
		if strings.HasPrefix(k, prefix) {
			out[k] = v
		}
	}
	return out
}

func totalSkipped(m map[string]int) int {
	n := 0
	for _, v := range m {
		n += v
	}
	return n
}

func (rig *parsimRig) workloadSummary() map[string]any {
	kinds := map[string]int{}
	for _, g := range rig.infos {
		kinds[g.Kind]++
	}
	m := map[string]any{"parsers": len(rig.infos), "by_kind": kinds, "workload_rejected": rig.rejected}
	if rig.weaver != nil {
		st := rig.weaver.Stats
		m["woven_yield_sites"] = st.YieldSites
		m["woven_memo_drop_points"] = st.MemoDropPoints
		m["woven_memo_miss_points"] = st.MemoMissPoints
		m["woven_memo_evict_points"] = st.MemoEvictPoint
		m["woven_map_ranges"] = st.MapRangesWoven
		m["woven_sync_types"] = st.SyncReplaced
		if st.TypeCheckError != "" {
			m["weaver_typecheck_note"] = clipStr(st.TypeCheckError, 200)
		}
	}
	return m
}

type parsimPlan struct {
	nGen, inputs, optsPer int
	runs                  int
	raceRuns              int
	chunk                 int
	coldRuns              int  // single-case processes (scheduled), and as many on the race build
	stmtYields            bool // weave a yield before every statement, not only at function/loop entries
}

// CheckC06: memoisation is invisible, also under arbitrary loss of memo
// entries.
func CheckC06(e *Env) (int, error) {
	plan := parsimPlan{nGen: 36, inputs: 36, optsPer: 2, runs: 250000, chunk: 4000}
	if e.Tier == "thorough" {
		plan = parsimPlan{nGen: 220, inputs: 80, optsPer: 4, runs: 2000000, chunk: 20000}
	}
	return parsimCheck(e, "C06", "c06", plan)
}

// CheckC12: reuse through Reset equals a fresh parser.
func CheckC12(e *Env) (int, error) {
	plan := parsimPlan{nGen: 36, inputs: 36, optsPer: 2, runs: 80000, chunk: 1500}
	if e.Tier == "thorough" {
		plan = parsimPlan{nGen: 220, inputs: 80, optsPer: 4, runs: 600000, chunk: 6000}
	}
	return parsimCheck(e, "C12", "c12", plan)
}

// CheckC14: instances do not interfere under any interleaving.
func CheckC14(e *Env) (int, error) {
	plan := parsimPlan{nGen: 24, inputs: 30, optsPer: 2, runs: 24000, raceRuns: 1600, chunk: 300, coldRuns: 160, stmtYields: true}
	if e.Tier == "thorough" {
		plan = parsimPlan{nGen: 120, inputs: 60, optsPer: 4, runs: 250000, raceRuns: 8000, chunk: 3000, coldRuns: 800, stmtYields: true}
	}
	return parsimCheck(e, "C14", "c14", plan)
}

func parsimCheck(e *Env, prop, mode string, plan parsimPlan) (int, error) {
	sc, err := NewScratch(strings.ToLower(prop))
	if err != nil {
		return 2, err
	}
	defer sc.Remove()
	specs, err := e.parsimSpecs(plan.nGen, plan.inputs, plan.optsPer, true)
	if err != nil {
		return 2, err
	}
	rig, err := buildParsimOpt(e, sc, specs, plan.raceRuns > 0, true, plan.stmtYields)
	if err != nil {
		return 2, err
	}
	buildS := time.Since(e.Start).Seconds()
	e.Logf("build done")
	// the weaving must not change behaviour: the woven runner's fault-free
	// sequential results are compared with the unwoven build on a sample
	// (a mismatch is reported as an infrastructure failure only if the sweep
	// finds no violation: code whose sequential behaviour depends on what ran
	// before in the process differs between the two builds as well)
	validated, weaveErr := rig.validateWeaving(mode, e.Seed)
	if weaveErr != nil {
		if _, ok := weaveErr.(weaveMismatch); !ok {
			return 2, weaveErr
		}
	}
	agg, err := rig.sweep(mode, e.Seed, plan.runs, false, plan.chunk, 30*time.Minute)
	if err != nil {
		return 2, err
	}
	e.Logf("sweep done: %d runs", agg.Runs)
	coldN := 0
	if plan.coldRuns > 0 {
		// cold starts: one case per process, the concurrent run first
		const coldBase = 1_000_000
		cold, err := rig.sweepRange(mode, e.Seed, coldBase, coldBase+plan.coldRuns, false, 1, 30*time.Minute)
		if err != nil {
			return 2, err
		}
		coldN = cold.Runs
		agg.merge(cold)
		if plan.raceRuns > 0 {
			coldRace, err := rig.sweepRange(mode, e.Seed, coldBase, coldBase+plan.coldRuns, true, 1, 30*time.Minute)
			if err != nil {
				return 2, err
			}
			agg.Viol = append(agg.Viol, coldRace.Viol...)
		}
		e.Logf("cold sweeps done: %d runs", coldN)
	}
	var raceAgg *parsimAgg
	if plan.raceRuns > 0 {
		raceAgg, err = rig.sweep(mode, e.Seed, plan.raceRuns, true, min(150, max(10, plan.raceRuns/(e.Jobs*2))), 45*time.Minute)
		if err != nil {
			return 2, err
		}
		agg.Viol = append(agg.Viol, raceAgg.Viol...)
		e.Logf("race sweep done: %d runs", raceAgg.Runs)
	}
	viols := rig.toViolations(prop, agg.Viol)
	wall := time.Since(e.Start).Seconds()
	cov := map[string]any{
		"evaluations":                   agg.Runs,
		"distinct_nontrivial":           len(agg.Sigs),
		"samples":                       samplesOf(agg.Samples),
		"skipped":                       agg.Skipped,
		"skipped_total":                 totalSkipped(agg.Skipped),
		"workload":                      rig.workloadSummary(),
		"runs_per_hour":                 int(float64(agg.Runs) / (wall - buildS + 0.001) * 3600),
		"build_s":                       int(buildS),
		"seeds":                         1,
		"simulated_time":                "n/a — the system under test reads no clock; progress is measured in woven yield steps",
		"traces_validated_against_impl": validated,
		"components_real":               []string{"peg binary built from /repo's working tree emits every workload parser", "the emitted parser code (rule closures, memo table, token buffer, Reset, Execute, AST, printers) runs unmodified except for woven yield/fault calls"},
	}
	ev := &Evidence{PropertyID: prop, Level: "exploration", Violations: len(viols), Coverage: cov}
	switch mode {
	case "c06":
		cov["rule"] = "one evaluation = one (parser, input, entry rule, knobs, memo-fault tape) case drawn from VERIF_SEED: the parser is run with DisableMemoize (reference: memo table always empty) and with memoisation under the fault tape (drop this store / miss this lookup / evict the table), and verdict, tokens, action trace, AST, printed tree or error token and message are compared; non-trivial = the memoising run had at least one memo hit or one fault that fired; distinct = distinct digest of (parser, input, entry, memo statistics)"
		cov["fault_kinds_fired"] = sumPrefix(agg.Stats, "fault_")
		cov["memo_hits"] = agg.Stats["memo_hits"]
		cov["memo_stores"] = agg.Stats["memo_stores"]
		cov["probe_hit_in_run_with_dropped_store"] = agg.Stats["probe_hit_in_run_with_dropped_store"]
		cov["inputs_accepted"] = agg.Stats["accepted"]
		cov["inputs_rejected"] = agg.Stats["rejected"]
		cov["reference_steps_total"] = agg.Stats["ref_steps"]
		cov["boundary_sweeps"] = agg.Stats["boundary_sweeps"]
		cov["boundary_sweep_inputs"] = agg.Stats["boundary_sweep_inputs"]
		cov["boundary_sweep_note"] = "1 case in 300 is a boundary sweep: a repeatable unit is measured and every repetition count in a 40-wide window around the count at which the token total reaches 256, 1024, 4096, 8192 or 32768 (sometimes with Size set to that value) is run through the same comparison, so that every alignment of a multi-token write against a buffer boundary occurs"
		cov["reuse_histories"] = agg.Stats["reuse_histories"]
		cov["reuse_history_steps"] = agg.Stats["reuse_history_steps"]
		cov["reuse_note"] = "1 case in 20 runs a memoising and a non-memoising instance side by side through a Reset history (2-10 steps); long histories of 513 and 131 073 steps whose rare inputs recur at multiples of 256 and 65 536 steps are part of the sweep"
		cov["components_stub"] = []string{"none; the memo-table faults are woven at the three points named in DESIGN.md 2.2"}
		ev.Assumptions = []string{"semantic predicates of the workload are pure functions of (id, offset)", "the fault points are found by name (memoize closure, `memoized, ok := memoization[…]`); if a change renames them the evidence reports 0 woven points and only the fault-free comparison remains"}
	case "c12":
		cov["rule"] = "one evaluation = one history (2–12 steps of Buffer=…; Reset(); Parse(); optional Execute/AST/print) on one long-lived instance with knobs Size/U/memo drawn per instance, each non-aborted step compared with a freshly constructed default instance given that input alone; odd run numbers inject aborts (panic in the n-th predicate/action callback, recovered by the client); non-trivial = the history contains an abort, a fail→success or success→fail transition or a shrinking input; distinct = digest of (parser, knobs, inputs, abort positions)"
		cov["fault_kinds_fired"] = sumPrefix(agg.Stats, "fault_")
		cov["probes"] = sumPrefix(agg.Stats, "probe_")
		cov["boundary_sweeps"] = agg.Stats["boundary_sweeps"]
		cov["boundary_sweep_inputs"] = agg.Stats["boundary_sweep_inputs"]
		cov["giant_inputs"] = agg.Stats["giant_inputs"]
		cov["marathon_histories"] = agg.Stats["marathon_histories"]
		cov["marathon_steps"] = agg.Stats["marathon_steps"]
		cov["marathon_note"] = "histories of 131 073 steps on one uint16 instance (rare inputs every 65 536 steps, a short filler in between), compared with fresh parsers at the rare steps and at samples: probes everything that counts operations in a value of type U"
		cov["components_stub"] = []string{"none"}
		ev.Assumptions = []string{"tokens after a failed parse are not compared (the property defines them for successful parses only)"}
	case "c14":
		cov["rule"] = "one evaluation = 2–4 client goroutines, each with its own parser instance and a 1–3 step program, run (a) alone and (b) together under the seeded scheduler, which releases exactly one parked goroutine per step at woven yield sites (function/closure entries and loop bodies of the emitted parser); every client's observations must equal its solo observations; non-trivial = at least one preemption (the scheduler switched away from a task that was still runnable); distinct = distinct schedule-log digest"
		cov["scheduler_steps"] = agg.Stats["sched_steps"]
		cov["context_switches"] = agg.Stats["sched_switches"]
		cov["preemptions"] = agg.Stats["sched_preemptions"]
		cov["distinct_site_adjacency_pairs"] = len(agg.Adjacent)
		cov["runs_abandoned_at_step_cap"] = agg.Stats["abandoned"]
		cov["freeze_windows_opened"] = agg.Stats["freeze_windows_opened"]
		cov["handoff_windows_opened"] = agg.Stats["handoff_windows_opened"]
		cov["solo_order_checks"] = agg.Stats["solo_order_checks"]
		cov["cases_with_a_big_input_client"] = agg.Stats["cases_with_a_big_input_client"]
		cov["cases_with_a_big_input_client_skipped"] = agg.Stats["cases_with_a_big_input_client_skipped"]
		cov["goid_fast_path"] = agg.GoidFast
		cov["cold_start_runs"] = coldN
		cov["cold_start_note"] = "single-case worker processes in which the concurrent run precedes the solo references, so lazily initialised package-level state is met cold; repeated on the -race build"
		if raceAgg != nil {
			cov["race_detector_runs"] = raceAgg.Runs
			cov["race_detector_note"] = "free-running goroutines on an unwoven -race build of the same workload: runtime monitoring, reported separately and not counted as simulated runs"
		}
		cov["components_stub"] = []string{"none; goroutines are real, only the choice of who runs next is taken from the tape (testing/synctest detects quiescence)"}
		ev.Assumptions = []string{"the cooperative scheduler creates happens-before edges between tasks, so data races without visible effect are left to the separate -race tier"}
	}
	if err := e.WriteEvidence(ev); err != nil {
		return 2, err
	}
	exit, n := e.Report("parsim", prop, viols)
	fmt.Printf("%s %s: %d simulated runs (%d non-trivial, %d distinct, %d skipped), %d parsers, %d violation(s), %.1fs (build %.1fs)\n",
		prop, e.Tier, agg.Runs, agg.Nontrivial, len(agg.Sigs), totalSkipped(agg.Skipped), len(rig.infos), n, wall, buildS)
	if exit == 0 && weaveErr != nil {
		return 2, infra("%v", weaveErr)
	}
	return exit, nil
}

func samplesOf(cs []PCase) []any {
	var out []any
	for i, c := range cs {
		if i >= 3 {
			break
		}
		out = append(out, c)
	}
	if len(out) == 0 {
		out = append(out, "no non-trivial case in this run")
	}
	return out
}

type weaveMismatch struct{ msg string }

func (w weaveMismatch) Error() string { return w.msg }

// validateWeaving runs the first cases of the mode, fault-free and
// sequentially, on both the woven and the unwoven runner and requires equal
// outcomes; returns the number of cases compared.
func (rig *parsimRig) validateWeaving(mode string, seed uint64) (int, error) {
	if rig.plainRunner == "" {
		return 0, nil
	}
	const n = 3000
	chunks := rig.env.Jobs
	per := (n + chunks - 1) / chunks
	validated := 0
	var mu sync.Mutex
	err := ParallelDo(chunks, rig.env.Jobs, func(i int) error {
		from, to := i*per, (i+1)*per
		a, err := rig.runJob(&PJob{Mode: mode, Seed: seed, From: from, To: to, RefSigs: true}, false, 20*time.Minute)
		if err != nil {
			if _, ok := err.(workerCrash); ok {
				return nil // the sweep will isolate and report the crashing case
			}
			return err
		}
		// the unwoven build has no step budget: it computes reference
		// observations only, and not for cases the woven build had to skip
		var skip []int
		for k, sig := range a.RefSigs {
			if sig == 0 {
				skip = append(skip, from+k)
			}
		}
		b, err := rig.runJob(&PJob{Mode: mode, Seed: seed, From: from, To: to, RefSigs: true, RefOnly: true, Skip: skip, Plain: true}, false, 10*time.Minute)
		if err != nil {
			if _, ok := err.(workerCrash); ok {
				// the validation build ran into a resource limit (memory
				// watchdog on the large shipped grammars): this range is not
				// validated, nothing else depends on it
				mu.Lock()
				rig.rejected["weaving validation skipped for a job range (unwoven runner hit a resource limit)"]++
				mu.Unlock()
				return nil
			}
			return err
		}
		if len(a.RefSigs) != len(b.RefSigs) {
			return infra("weaving validation: %d vs %d results", len(a.RefSigs), len(b.RefSigs))
		}
		for k := range a.RefSigs {
			// 0 = no reference observation (the woven build counts steps and
			// skips a case whose reference exceeds the budget; the unwoven
			// build has nothing to count)
			if a.RefSigs[k] != 0 && b.RefSigs[k] != 0 && a.RefSigs[k] != b.RefSigs[k] {
				return weaveMismatch{fmt.Sprintf("weaving changes behaviour: case %d of mode %s observes differently in the woven and the unwoven build", from+k, mode)}
			}
		}
		mu.Lock()
		for k := range a.RefSigs {
			if a.RefSigs[k] != 0 && b.RefSigs[k] != 0 {
				validated++
			}
		}
		mu.Unlock()
		return nil
	})
	return validated, err
}

// ReplayParsim re-executes a parsim replay file against /repo's current tree.
func ReplayParsim(e *Env, rf *ReplayFile) (int, error) {
	var rp parsimReplay
	if err := json.Unmarshal(rf.Payload, &rp); err != nil {
		return 2, err
	}
	sc, err := NewScratch("replay")
	if err != nil {
		return 2, err
	}
	defer sc.Remove()
	path := e.replayPath()
	if rp.Rebuild == "grammars" {
		var specs []GrammarSpec
		for _, gi := range rp.Grammars {
			specs = append(specs, GrammarSpec{Base: gi.Name, Kind: gi.Kind, Text: gi.Text, OptSets: [][]string{gi.Opts}, Inputs: gi.Inputs, HasHost: gi.HasHost, Salt: gi.Salt, Heavy: gi.Heavy, FixedName: true})
		}
		rig, err := buildParsim(e, sc, specs, false, true)
		if err != nil {
			return 2, err
		}
		outs, err := rig.runExplicit([]PCase{*rp.Case}, false, true)
		if err != nil {
			if wc, ok := err.(workerCrash); ok {
				fmt.Printf("VIOLATION property=%s replay=%s\n  class=crash\n  %s\n", rf.Property, path, clipStr(wc.msg, 2000))
				return 1, nil
			}
			return 2, err
		}
		o := outs[0]
		if o.Skipped != "" {
			return 2, infra("replay inconclusive: %s", o.Skipped)
		}
		if o.Class != "" {
			fmt.Printf("VIOLATION property=%s replay=%s\n  class=%s\n  %s\n", rf.Property, path, o.Class, strings.ReplaceAll(o.Detail, "\n", "\n  "))
			if o.Class != rf.Class {
				fmt.Printf("  note: recorded class was %s\n", rf.Class)
			}
			return 1, nil
		}
		fmt.Printf("replay %s: property held on this case\n", rf.Property)
		return 0, nil
	}
	// full rebuild: re-run the recorded range of the tier's sweep
	f, ok := Checks[rf.Property]
	if !ok {
		return 2, fmt.Errorf("no check for %s", rf.Property)
	}
	fmt.Printf("replay %s: class %s is replayed by re-running the %s tier with seed %d\n", rf.Property, rf.Class, e.Tier, e.Seed)
	return f(e)
}

func (e *Env) replayPath() string {
	return getenv("VERIF_REPLAY_PATH", "?")
}
