package orch

import (
	"bytes"
	"encoding/json"
	"fmt"
	"go/parser"
	"go/token"
	"os"
	"path/filepath"
	"sort"
	"strings"
	"sync"
	"time"

	"verif/internal/ptrace"
	"verif/internal/simrt"
	"verif/internal/workload"
)

// ---------------------------------------------------------------------
// clisim: the real peg binary, run under ptrace system-call fault injection (C18)
// ---------------------------------------------------------------------

type CliScenario struct {
	ID       int      `json:"id"`
	TextKind string   `json:"text_kind"` // valid | warned | invalid | empty
	TextName string   `json:"text_name"`
	Text     string   `json:"text"`
	Source   string   `json:"source"` // file | stdin | dash | missing | dir
	Dest     string   `json:"dest"`   // default | named | stdout | missingdir | isdir | devfull
	Opts     []string `json:"opts"`
	Abs      bool     `json:"abs_paths"`
	// StdinPipe > 0: standard input is a pipe delivering that many bytes per
	// write (short reads); 0: standard input is the grammar file itself
	StdinPipe int `json:"stdin_pipe,omitempty"`
	// Stale > 0: the destination already exists and holds that many bytes of
	// old content (it must be replaced, not overwritten in place)
	Stale int `json:"stale_dest_bytes,omitempty"`
	// GName: file name of the grammar (default g.peg)
	GName string `json:"grammar_name,omitempty"`
	// Spell: how relative names are written on the command line: 0 "n",
	// 1 "./n", 2 "sub/../n", 3 ".//n" (all name the same file)
	Spell int `json:"spell,omitempty"`
	// DName: file name of a named destination (default out.go)
	DName string `json:"dest_name,omitempty"`
	// DestLink: "symlink" or "hardlink": the named destination already exists
	// as a link to another file in the directory
	DestLink string `json:"dest_link,omitempty"`
	// Env: 1 = HOME, TMPDIR, LANG, TZ point at odd values
	Env int `json:"env,omitempty"`
	// Unpriv: peg runs as user nobody (the harness is root, for which file
	// permissions do not exist); with it come the sources "unreadable" (a
	// grammar without read permission) and the destinations "readonlyfile"
	// (an existing file of another user in a sticky world-writable directory)
	// and "readonlydir" (a directory the user may not write to)
	Unpriv bool `json:"unprivileged,omitempty"`
}

func (sc *CliScenario) gname() string {
	if sc.GName != "" {
		return sc.GName
	}
	return "g.peg"
}

type CliFault struct {
	Target     string `json:"target"`  // src | dst
	Syscall    string `json:"syscall"` // openat | read | write | close
	Errno      string `json:"errno"`   // E… or "EOF" (read returns 0)
	When       int    `json:"when"`
	Persistent bool   `json:"persistent,omitempty"`
}

func (f CliFault) String() string {
	p := ""
	if f.Persistent {
		p = "+"
	}
	return fmt.Sprintf("%s:%s:%s@%d%s", f.Target, f.Syscall, f.Errno, f.When, p)
}

type CliCase struct {
	Sc     CliScenario `json:"scenario"`
	Faults []CliFault  `json:"faults"`
}

// what a run of the binary looked like
type cliObs struct {
	Exit      int
	Stderr    string
	DestBytes []byte // content of the destination after the run (nil if none)
	DestExist bool
	Injected  []injected
	ReadLens  []int // successful read() results on the source, in order, up to the first injected read
	EOFInject bool
	Calls     map[string]int // "src:read" → count etc. (fault-free trace)
}

type injected struct {
	Target, Syscall, Errno string
	Index                  int
}

type cliRig struct {
	env    *Env
	sc     *Scratch
	peg    string
	refgen string
	self   string

	refMu    sync.Mutex
	refCache map[string]*refResp
}

type refReq struct {
	ID     int
	Text   string
	Inline bool
	Switch bool
	NoAst  bool
	Strict bool
	File   string
	Args   []string
}

type refResp struct {
	ID         int
	ParseErr   string
	CompileErr string
	Out        []byte
	Stderr     string
	Panic      string
}

func has(opts []string, o string) bool {
	for _, x := range opts {
		if x == o {
			return true
		}
	}
	return false
}

// layout of one run directory and the argv of the run
type cliLayout struct {
	dir       string
	argv      []string // arguments after the program name
	srcPath   string   // path the injector watches for the source ("" if none)
	dstPath   string   // path watched for the destination
	outName   string   // the name Compile receives as file
	stdinFile string
	stdoutTo  string
	destIsStd bool
}

func (sc *CliScenario) layout(dir string) cliLayout {
	l := cliLayout{dir: dir}
	name := func(n string) string {
		if sc.Abs {
			return filepath.Join(dir, n)
		}
		switch sc.Spell {
		case 1:
			return "./" + n
		case 2:
			return "sub/../" + n
		case 3:
			return ".//" + n
		}
		return n
	}
	dname := "out.go"
	if sc.DName != "" {
		dname = sc.DName
	}
	// the harness's own files live next to, not inside, the run directory:
	// everything below the run directory is fair game for fault injection
	l.stdoutTo = filepath.Join(dir+".io", "stdout.txt")
	l.argv = append(l.argv, sc.Opts...)
	out := ""
	switch sc.Dest {
	case "named":
		out = name(dname)
	case "stdout":
		out = "-"
	case "readonlyfile":
		out = name("sticky/out.go")
	case "readonlydir":
		out = name("rodir/out.go")
	case "missingdir":
		out = name("nodir/out.go")
	case "isdir":
		out = name("adir")
	case "devfull":
		out = "/dev/full"
	}
	if out != "" {
		l.argv = append(l.argv, "-output", out)
	}
	switch sc.Source {
	case "file":
		l.argv = append(l.argv, name(sc.gname()))
		l.srcPath = filepath.Join(dir, sc.gname())
		if out == "" {
			out = name(sc.gname()) + ".go"
		}
	case "unreadable":
		l.argv = append(l.argv, name(sc.gname()))
		l.srcPath = filepath.Join(dir, sc.gname())
		if out == "" {
			out = name(sc.gname()) + ".go"
		}
	case "missing":
		l.argv = append(l.argv, name("nosuch.peg"))
		l.srcPath = filepath.Join(dir, "nosuch.peg")
		if out == "" {
			out = name("nosuch.peg") + ".go"
		}
	case "dir":
		l.argv = append(l.argv, name("srcdir"))
		l.srcPath = filepath.Join(dir, "srcdir")
		if out == "" {
			out = name("srcdir") + ".go"
		}
	case "dash":
		l.argv = append(l.argv, "-")
		l.stdinFile = filepath.Join(dir, sc.gname())
		l.srcPath = l.stdinFile
	case "stdin":
		l.stdinFile = filepath.Join(dir, sc.gname())
		l.srcPath = l.stdinFile
	}
	l.outName = out
	switch {
	case out == "" || out == "-":
		l.destIsStd = true
		l.dstPath = l.stdoutTo
	case filepath.IsAbs(out):
		l.dstPath = out
	default:
		l.dstPath = filepath.Join(dir, out)
	}
	return l
}

func (l *cliLayout) prepare(sc *CliScenario) error {
	if err := os.MkdirAll(l.dir, 0o755); err != nil {
		return err
	}
	if err := os.MkdirAll(l.dir+".io", 0o755); err != nil {
		return err
	}
	if sc.Spell == 2 {
		if err := os.MkdirAll(filepath.Join(l.dir, "sub"), 0o755); err != nil {
			return err
		}
	}
	switch sc.Source {
	case "unreadable":
		if err := os.WriteFile(filepath.Join(l.dir, sc.gname()), []byte(sc.Text), 0o600); err != nil {
			return err
		}
	case "file", "dash", "stdin":
		if err := os.WriteFile(filepath.Join(l.dir, sc.gname()), []byte(sc.Text), 0o644); err != nil {
			return err
		}
	case "dir":
		if err := os.MkdirAll(filepath.Join(l.dir, "srcdir"), 0o755); err != nil {
			return err
		}
	}
	if sc.Dest == "isdir" {
		if err := os.MkdirAll(filepath.Join(l.dir, "adir"), 0o755); err != nil {
			return err
		}
	}
	switch sc.Dest {
	case "readonlyfile":
		d := filepath.Join(l.dir, "sticky")
		if err := os.MkdirAll(d, 0o755); err != nil {
			return err
		}
		if err := os.Chmod(d, 0o1777|os.ModeSticky); err != nil {
			return err
		}
		if err := os.WriteFile(filepath.Join(d, "out.go"), []byte("// parser of another user\n"), 0o644); err != nil {
			return err
		}
	case "readonlydir":
		if err := os.MkdirAll(filepath.Join(l.dir, "rodir"), 0o755); err != nil {
			return err
		}
	}
	if sc.DestLink != "" && sc.Dest == "named" && !l.destIsStd {
		target := filepath.Join(l.dir, "link-target.go")
		if err := os.WriteFile(target, []byte("// old\n"), 0o644); err != nil {
			return err
		}
		var err error
		if sc.DestLink == "symlink" {
			err = os.Symlink("link-target.go", l.dstPath)
		} else {
			err = os.Link(target, l.dstPath)
		}
		if err != nil {
			return err
		}
	} else if sc.Stale > 0 && (sc.Dest == "named" || sc.Dest == "default") && !l.destIsStd {
		if err := os.WriteFile(l.dstPath, bytes.Repeat([]byte("// stale content of an earlier run\n"), sc.Stale/35+1), 0o644); err != nil {
			return err
		}
	}
	if sc.Unpriv {
		// the run directory and what is in it belong to the unprivileged
		// user, except what was set up above as somebody else's
		keep := map[string]bool{filepath.Join(l.dir, "sticky"): true, filepath.Join(l.dir, "sticky", "out.go"): true, filepath.Join(l.dir, "rodir"): true}
		if sc.Source == "unreadable" {
			keep[filepath.Join(l.dir, sc.gname())] = true
		}
		_ = filepath.WalkDir(l.dir, func(p string, d os.DirEntry, err error) error {
			if err == nil && !keep[p] {
				_ = os.Lchown(p, 65534, 65534)
			}
			return nil
		})
		_ = os.Chmod(l.dir, 0o755)
	}
	return nil
}

func scenarioEnv(sc *CliScenario) []string {
	env := append(os.Environ(), "GOTRACEBACK=single")
	if sc.Env == 1 {
		env = append(env, "HOME=/nonexistent-home", "TMPDIR=/nonexistent-tmp", "LANG=tlh_QO.UTF-8", "TZ=Pacific/Kiritimati", "USER=nobody", "TERM=dumb", "NO_COLOR=1")
	}
	return env
}

var errnoNum = map[string]int{"SIGTERM": -15, "SIGINT": -2, "SIGHUP": -1, "EOF": 0, "EPERM": 1, "EXDEV": 18, "EEXIST": 17, "ENOTDIR": 20, "EISDIR": 21, "ENAMETOOLONG": 36, "ELOOP": 40, "ETXTBSY": 26, "EBADF": 9, "EPIPE": 32, "ESTALE": 116, "ENODEV": 19, "ENOENT": 2, "EIO": 5, "EACCES": 13, "EMFILE": 24, "EFBIG": 27, "ENOSPC": 28, "EDQUOT": 122, "EROFS": 30, "ENOMEM": 12}
var errnoName = func() map[int]string {
	m := map[int]string{}
	for k, v := range errnoNum {
		m[v] = k
	}
	return m
}()

// run executes one case under the ptrace fault injector (a helper process:
// `verif trace spec.json`) and collects what happened.
func (rig *cliRig) run(c *CliCase, dir string, traceAll bool) (*cliObs, error) {
	sc := &c.Sc
	l := sc.layout(dir)
	if err := l.prepare(sc); err != nil {
		return nil, infra("prepare: %v", err)
	}
	defer os.RemoveAll(dir)
	defer os.RemoveAll(dir + ".io")
	sp := ptrace.Spec{Argv: append([]string{rig.peg}, l.argv...), Dir: dir,
		Env:       append(os.Environ(), "GOTRACEBACK=single"),
		Stdin:     l.stdinFile,
		StdinPipe: sc.StdinPipe,
		Stdout:    l.stdoutTo,
		Stderr:    filepath.Join(dir+".io", "stderr.txt"),
		Watch:     map[string]string{"dst": l.dstPath},
		WatchDir:  dir,
	}
	if sc.Unpriv {
		sp.Uid, sp.Gid = 65534, 65534
	}
	if l.srcPath != "" {
		sp.Watch["src"] = l.srcPath
	}
	for _, f := range c.Faults {
		n, ok := errnoNum[f.Errno]
		if !ok {
			return nil, infra("unknown errno %q", f.Errno)
		}
		sp.Faults = append(sp.Faults, ptrace.Fault{Target: f.Target, Syscall: f.Syscall, Errno: n, When: f.When, Persistent: f.Persistent})
	}
	specPath := filepath.Join(dir+".io", "spec.json")
	sb, _ := json.Marshal(sp)
	if err := os.WriteFile(specPath, sb, 0o644); err != nil {
		return nil, infra("spec: %v", err)
	}
	so, se, exit, err := RunCmd(180*time.Second, dir, os.Environ(), nil, rig.self, "trace", specPath)
	if err != nil {
		return nil, infra("tracer: %v", err)
	}
	if exit != 0 {
		return nil, infra("tracer exit %d: %s", exit, se)
	}
	var tr ptrace.Result
	if err := json.Unmarshal(bytes.TrimSpace(so), &tr); err != nil {
		return nil, infra("tracer answer: %v: %q", err, so)
	}
	obs := &cliObs{Exit: tr.Exit, Calls: tr.Calls, ReadLens: tr.ReadLens}
	if b, err := os.ReadFile(sp.Stderr); err == nil {
		obs.Stderr = string(b)
	}
	if st, err := os.Stat(l.dstPath); err == nil && st.Mode().IsRegular() {
		if b, err := os.ReadFile(l.dstPath); err == nil {
			obs.DestBytes, obs.DestExist = b, true
		}
	}
	for _, in := range tr.Injected {
		e := errnoName[in.Errno]
		if in.Errno == 0 {
			obs.EOFInject = true
		}
		obs.Injected = append(obs.Injected, injected{in.Target, in.Syscall, e, in.Index})
	}
	return obs, nil
}

// reference asks the library path what the generation of text under the
// scenario's options produces.
func (rig *cliRig) reference(sc *CliScenario, l *cliLayout, text string) (*refResp, error) {
	rq := refReq{Text: text, Inline: has(sc.Opts, "-inline"), Switch: has(sc.Opts, "-switch"), NoAst: has(sc.Opts, "-noast"),
		Strict: has(sc.Opts, "-strict"), File: l.outName, Args: append([]string{rig.peg}, l.argv...)}
	kb, _ := json.Marshal(rq)
	key := string(kb)
	rig.refMu.Lock()
	if r, ok := rig.refCache[key]; ok {
		rig.refMu.Unlock()
		return r, nil
	}
	rig.refMu.Unlock()
	so, se, exit, err := RunCmd(120*time.Second, rig.sc.Dir, os.Environ(), append(kb, '\n'), rig.refgen)
	if err != nil || exit != 0 {
		return nil, infra("refgen failed (exit %d, %v): %s", exit, err, se)
	}
	var rs refResp
	if err := json.Unmarshal(bytes.TrimSpace(so), &rs); err != nil {
		return nil, infra("refgen answer: %v: %q", err, so)
	}
	if strings.HasPrefix(rs.Panic, "infra:") {
		return nil, infra("refgen: %s", rs.Panic)
	}
	rig.refMu.Lock()
	rig.refCache[key] = &rs
	rig.refMu.Unlock()
	return &rs, nil
}

type cliVerdict struct {
	Expect   string // SUCCESS | FAIL | EITHER
	Why      string
	Class    string // "" = held
	Detail   string
	FaultKey string
	Fired    bool
}

// judge is the executable model of the CLI contract (DESIGN.md 3, C18).
func (rig *cliRig) judge(c *CliCase, obs *cliObs, dir string) (*cliVerdict, error) {
	sc := &c.Sc
	l := sc.layout(dir)
	v := &cliVerdict{Expect: "SUCCESS", FaultKey: "none"}
	fail := func(why string) {
		if v.Expect != "FAIL" {
			v.Expect, v.Why = "FAIL", why
		}
	}
	// what the program received
	text := sc.Text
	if obs.EOFInject {
		n := 0
		for _, k := range obs.ReadLens {
			n += k
		}
		if n <= len(text) {
			text = text[:n]
		}
	}
	var keys []string
	closeFault := false
	signalled := false
	softFault := false
	for _, in := range obs.Injected {
		keys = append(keys, in.Target+":"+in.Syscall+":"+in.Errno)
		switch {
		case strings.HasPrefix(in.Errno, "SIG"):
			// handled below: the call itself proceeds
		case in.Target == "dir":
			// an auxiliary file (temporary output, lock, …): the program may
			// recover or give up
			softFault = true
		case in.Syscall == "openat":
			fail("open of " + in.Target + " failed with " + in.Errno)
		case in.Syscall == "read" && in.Errno != "EOF":
			fail("read of the grammar failed with " + in.Errno)
		case in.Syscall == "write" && in.Target == "dst":
			fail("write to the destination failed with " + in.Errno)
		case in.Syscall == "close":
			closeFault = true
		case in.Syscall == "rename" || in.Syscall == "unlink" || in.Syscall == "fsync" || in.Syscall == "ftruncate" || in.Target == "dir":
			// a step of some other way of producing the destination (temporary
			// file, rename, sync) failed: the program may recover or give up
			softFault = true
		}
		if strings.HasPrefix(in.Errno, "SIG") {
			signalled = true
		}
	}
	if len(keys) > 0 {
		v.Fired = true
		sort.Strings(keys)
		v.FaultKey = strings.Join(dedup(keys), ",")
	}
	switch sc.Source {
	case "unreadable":
		fail("grammar file is not readable by this user")
	case "missing":
		fail("grammar file does not exist")
	case "dir":
		fail("grammar is a directory")
	}
	switch sc.Dest {
	case "missingdir":
		fail("destination directory does not exist")
	case "isdir":
		fail("destination is a directory")
	case "readonlyfile":
		fail("destination is another user's file and not writable")
	case "readonlydir":
		fail("destination directory is not writable by this user")
	case "devfull":
		// only reached when something is written
	}
	var ref *refResp
	if sc.Source == "file" || sc.Source == "stdin" || sc.Source == "dash" {
		var err error
		ref, err = rig.reference(sc, &l, text)
		if err != nil {
			return nil, err
		}
		switch {
		case ref.Panic != "":
			// the library path itself crashes on this text: no expectation on
			// the exit status can be derived from it
			v.Expect, v.Why = "EITHER", "library path panics: "+ref.Panic
		case ref.ParseErr != "":
			fail("grammar text is rejected by the front end")
		case ref.CompileErr != "":
			fail("generation reports: " + firstLine(ref.CompileErr))
		default:
			if sc.Dest == "devfull" {
				fail("destination is /dev/full")
			}
		}
	}
	if v.Expect == "SUCCESS" && closeFault {
		v.Expect, v.Why = "EITHER", "close failed after a complete write"
	}
	if softFault && v.Expect == "SUCCESS" {
		v.Expect, v.Why = "EITHER", "a rename/unlink/sync or a call on an auxiliary file failed"
	}
	if signalled && v.Expect == "SUCCESS" {
		// a termination signal may kill the process (any status, no message
		// required) or be survived; status 0 still promises a complete parser
		v.Expect, v.Why = "EITHER", "a termination signal arrived during the run"
	}
	// ---- the contract ----
	complete := func() (bool, string) {
		if ref == nil || ref.ParseErr != "" || ref.CompileErr != "" || ref.Panic != "" {
			return false, "no complete parser exists for this request"
		}
		fs := token.NewFileSet()
		if _, err := parser.ParseFile(fs, "ref.go", ref.Out, parser.SkipObjectResolution); err != nil {
			return false, "reference output is not Go: " + err.Error()
		}
		if !obs.DestExist {
			return false, "destination does not exist"
		}
		got := obs.DestBytes
		if l.destIsStd && (has(sc.Opts, "-print") || has(sc.Opts, "-syntax")) {
			if !bytes.HasSuffix(got, ref.Out) {
				return false, fmt.Sprintf("destination (%d bytes) does not end with the reference parser (%d bytes)", len(got), len(ref.Out))
			}
			return true, ""
		}
		if !bytes.Equal(got, ref.Out) {
			return false, fmt.Sprintf("destination holds %d bytes, the complete parser is %d bytes%s", len(got), len(ref.Out), firstDiff(got, ref.Out))
		}
		return true, ""
	}
	switch {
	case obs.Exit == 0 && v.Expect == "FAIL":
		v.Class = "zero_exit_on_failure"
		v.Detail = fmt.Sprintf("exit status 0 although %s; stderr=%q", v.Why, clipStr(obs.Stderr, 300))
	case obs.Exit == 0:
		if ok, why := complete(); !ok {
			v.Class = "zero_exit_incomplete_output"
			v.Detail = "exit status 0 but " + why
		}
	case obs.Exit != 0 && v.Expect == "SUCCESS":
		v.Class = "spurious_failure"
		v.Detail = fmt.Sprintf("exit status %d on a request that must succeed (valid grammar, writable destination, no fault fired); stderr=%q", obs.Exit, clipStr(obs.Stderr, 300))
	case obs.Exit != 0 && v.Expect == "FAIL":
		if strings.TrimSpace(obs.Stderr) == "" && !signalled {
			v.Class = "failure_without_message"
			v.Detail = fmt.Sprintf("exit status %d with empty stderr although %s", obs.Exit, v.Why)
		}
	}
	return v, nil
}

func dedup(s []string) []string {
	var out []string
	for i, x := range s {
		if i == 0 || x != s[i-1] {
			out = append(out, x)
		}
	}
	return out
}

func firstLine(s string) string {
	s = strings.TrimSpace(s)
	if i := strings.IndexByte(s, '\n'); i >= 0 {
		return s[:i]
	}
	return s
}

func clipStr(s string, n int) string {
	if len(s) > n {
		return s[:n] + "…"
	}
	return s
}

func firstDiff(a, b []byte) string {
	n := min(len(a), len(b))
	for i := range n {
		if a[i] != b[i] {
			return fmt.Sprintf(" (first difference at byte %d)", i)
		}
	}
	return fmt.Sprintf(" (one is a prefix of the other, common length %d)", n)
}

func (c *CliCase) key(v *cliVerdict) string {
	sc := &c.Sc
	who := ""
	if sc.Unpriv {
		who = " user=nobody"
	}
	return fmt.Sprintf("text=%s src=%s dst=%s strict=%t%s fault=%s", sc.TextKind, sc.Source, sc.Dest, has(sc.Opts, "-strict"), who, v.FaultKey)
}

// ---------- scenario generation ----------

type cliText struct{ Kind, Name, Text string }

func (e *Env) cliTexts(repoCopy string, r *simrt.SplitMix64, n int) []cliText {
	var out []cliText
	hdr := "package p\n\ntype T Peg {}\n\n"
	out = append(out,
		cliText{"valid", "tiny", hdr + "S <- 'a' S / !.\n"},
		cliText{"valid", "calc", hdr + "E <- T ('+' T)* !.\nT <- <[0-9]+> { _ = text } / '(' E ')'\n"},
		cliText{"valid", "comment", "# header\npackage p\n\nimport \"fmt\"\n\ntype T Peg {\n n int\n}\n\nS <- <.> { fmt.Print(text); p.n++ } S / !.\n"},
		cliText{"warned", "unused", hdr + "S <- 'a'\nU <- 'b'\n"},
		cliText{"warned", "undefined", hdr + "S <- 'a' X\n"},
		cliText{"warned", "leftrec", hdr + "S <- S 'a' / 'b'\n"},
		cliText{"invalid", "norules", "package p\n\ntype T Peg {}\n"},
		cliText{"invalid", "garbage", "this is not a grammar <- <- (\n"},
		cliText{"invalid", "unclosed", hdr + "S <- ( 'a' \n"},
		cliText{"invalid", "nul", "package p\x00\n"},
		cliText{"empty", "empty", ""},
		// a grammar on which the generator itself panics today (a rule defined
		// twice; C15's business): whatever happens, exit status 0 requires a
		// complete parser in the destination
		cliText{"invalid", "duprule", hdr + "S <- 'a' A\nA <- 'b'\nA <- 'c'\n"},
		// boundary texts: one physical line far beyond 64 KiB (a comment, a
		// machine-written alternation), CRLF line ends, no final newline
		cliText{"valid", "longcomment", hdr + "S <- 'a' T\n# " + strings.Repeat("x", 70000) + "\nT <- 'b' U\nU <- 'c'\n"},
		cliText{"invalid", "longcomment-then-error", hdr + "S <- 'a' T\n# " + strings.Repeat("x", 70000) + "\nT <- ( 'b'\n"},
		cliText{"valid", "longrule", hdr + "S <- 'a' { _ = \"" + strings.Repeat("y", 70000) + "\" } T\nT <- 'c'\n"},
		// an action that is not Go: generation reports the parse error of the
		// emitted code (and dumps the raw buffer), which must be a failure
		cliText{"invalid", "badaction", hdr + "S <- 'a' { this is ( not go } T\nT <- 'b'\n"},
		cliText{"valid", "crlf", strings.ReplaceAll(hdr+"S <- 'a' T\nT <- 'b'\n", "\n", "\r\n")},
		cliText{"valid", "nofinalnewline", hdr + "S <- 'a' T\nT <- 'b' # trailing comment without newline"},
	)
	for _, rel := range []string{"peg.peg", "grammars/longtest/long.peg", "grammars/calculator/calculator.peg", "grammars/fexl/fexl.peg", "cmd/peg-bootstrap/bootstrap.peg"} {
		if b, err := os.ReadFile(filepath.Join(repoCopy, rel)); err == nil {
			out = append(out, cliText{"valid", rel, string(b)})
		}
	}
	for i := 0; i < n; i++ {
		g := workload.Generate(r.Uint64(), fmt.Sprintf("g%d", i))
		g.HostRefs = false
		t := g.Text()
		out = append(out, cliText{"valid", fmt.Sprintf("gen%d", i), t})
		if i%3 == 0 && len(t) > 40 {
			cut := 30 + r.Intn(len(t)-35)
			out = append(out, cliText{"invalid", fmt.Sprintf("gen%d-cut%d", i, cut), t[:cut] + "("})
		}
	}
	return out
}

func (e *Env) cliScenarios(texts []cliText, r *simrt.SplitMix64, n int) []CliScenario {
	var out []CliScenario
	sources := []string{"file", "file", "file", "file", "file", "file", "stdin", "stdin", "dash", "dash", "missing", "dir"}
	for i := 0; i < n; i++ {
		t := texts[r.Intn(len(texts))]
		if i < len(texts) {
			t = texts[i] // every text at least once
		}
		sc := CliScenario{ID: i, TextKind: t.Kind, TextName: t.Name, Text: t.Text}
		sc.Source = sources[r.Intn(len(sources))]
		switch sc.Source {
		case "file", "missing", "dir":
			sc.Dest = []string{"default", "default", "default", "named", "named", "named", "stdout", "stdout", "missingdir", "isdir", "devfull"}[r.Intn(11)]
		default:
			sc.Dest = []string{"default", "default", "named", "named", "named", "stdout", "stdout", "missingdir", "isdir", "devfull"}[r.Intn(10)]
		}
		for _, o := range []string{"-inline", "-switch", "-noast", "-strict"} {
			if r.Chance(1, 3) {
				sc.Opts = append(sc.Opts, o)
			}
		}
		destIsStd := sc.Dest == "stdout" || (sc.Dest == "default" && (sc.Source == "stdin" || sc.Source == "dash"))
		// -syntax/-print dump the tree of the grammar text itself (quadratic
		// in its size): small texts only
		if !destIsStd && len(sc.Text) < 8000 && r.Chance(1, 8) {
			sc.Opts = append(sc.Opts, []string{"-syntax", "-print"}[r.Intn(2)])
		}
		sc.Abs = r.Chance(1, 2)
		if (sc.Source == "stdin" || sc.Source == "dash") && r.Chance(1, 2) {
			sc.StdinPipe = []int{1, 7, 64, 500, 4096}[r.Intn(5)]
			// one chunk per read call of peg, every call a traced stop and a
			// place for a fault: at most a few hundred of them
			sc.StdinPipe = max(sc.StdinPipe, len(sc.Text)/300)
		}
		if (sc.Dest == "named" || sc.Dest == "default") && r.Chance(1, 3) {
			sc.Stale = []int{10, 5000, 400000}[r.Intn(3)]
		}
		if sc.Dest == "named" && r.Chance(1, 6) {
			sc.DestLink = []string{"symlink", "hardlink"}[r.Intn(2)]
		}
		if r.Chance(1, 4) {
			sc.GName = []string{"G.PEG", "grammar", "a b.peg", "x.peg.peg", ".hidden.peg", "näme.peg", strings.Repeat("n", 120) + ".peg", "g.go"}[r.Intn(8)]
		}
		if r.Chance(1, 4) {
			sc.Env = 1
		}
		// the same files under other spellings, and names that look like
		// something else (a file called "-" can only be written "./-")
		if r.Chance(1, 3) {
			sc.Spell = 1 + r.Intn(3)
		}
		if r.Chance(1, 6) {
			odd := []string{"-", "--", "-x.go", "-output", "out", "-.go"}[r.Intn(6)]
			if sc.Dest == "named" && r.Chance(1, 2) {
				sc.DName = odd
			} else {
				sc.GName = strings.TrimSuffix(odd, ".go")
			}
			if !sc.Abs && sc.Spell == 0 {
				sc.Spell = 1
			}
		}
		if r.Chance(1, 5) {
			sc.Unpriv = true
			switch r.Intn(5) {
			case 0:
				sc.Source = "unreadable"
				if sc.Dest == "stdout" || sc.Dest == "default" || sc.Dest == "named" {
					// keep
				} else {
					sc.Dest = "named"
				}
			case 1:
				sc.Dest = "readonlyfile"
			case 2:
				sc.Dest = "readonlydir"
			}
			if sc.Source == "stdin" || sc.Source == "dash" {
				sc.StdinPipe = 0
			}
		}
		out = append(out, sc)
	}
	return out
}

// faultsFor enumerates the single faults of a scenario from its fault-free
// trace: every openat/read/close position, and a bounded seeded sample of
// write positions (the printer issues one write per token, thousands per
// run) that always contains the first three and the last two.
func faultsFor(sc *CliScenario, calls map[string]int, r *simrt.SplitMix64, writeSamples int) [][]CliFault {
	var out [][]CliFault
	one := func(f CliFault) { out = append(out, []CliFault{f}) }
	for _, t := range []string{"src", "dst"} {
		for k := 1; k <= calls[t+":openat"]; k++ {
			for _, e := range []string{"ENOENT", "EACCES", "EIO", "EMFILE"} {
				one(CliFault{Target: t, Syscall: "openat", Errno: e, When: k})
			}
			// and two errnos drawn from the rest of what open(2) can return
			rest := []string{"EPERM", "EEXIST", "ENOTDIR", "EISDIR", "ENAMETOOLONG", "ELOOP", "ETXTBSY", "EROFS", "ENOMEM", "ENOSPC", "EDQUOT", "ESTALE", "ENODEV"}
			for range 2 {
				one(CliFault{Target: t, Syscall: "openat", Errno: rest[r.Intn(len(rest))], When: k})
			}
		}
		for k := 1; k <= calls[t+":close"]; k++ {
			one(CliFault{Target: t, Syscall: "close", Errno: "EIO", When: k})
		}
	}
	for k := 1; k <= calls["src:read"]; k++ {
		one(CliFault{Target: "src", Syscall: "read", Errno: "EIO", When: k})
		one(CliFault{Target: "src", Syscall: "read", Errno: []string{"EISDIR", "EBADF", "ENOMEM", "ESTALE", "EACCES"}[r.Intn(5)], When: k})
		one(CliFault{Target: "src", Syscall: "read", Errno: "EOF", When: k})
		one(CliFault{Target: "src", Syscall: "read", Errno: "EIO", When: k, Persistent: true})
	}
	// whatever else the program does below its directory (temporary files,
	// renames over the destination, syncs) can fail too
	for _, key := range []string{"dst:rename", "dst:unlink", "dst:fsync", "dst:ftruncate", "dir:openat", "dir:write", "dir:close", "dir:rename", "dir:unlink", "dir:fsync"} {
		n := calls[key]
		if n == 0 {
			continue
		}
		t, sys, _ := strings.Cut(key, ":")
		ks := []int{1, n}
		if n > 2 {
			ks = append(ks, 1+r.Intn(n))
		}
		for _, k := range ks {
			e := []string{"EPERM", "EACCES", "EIO", "ENOSPC", "EROFS", "EXDEV"}[r.Intn(6)]
			one(CliFault{Target: t, Syscall: sys, Errno: e, When: k})
		}
	}
	// a termination signal while a call on the grammar or the destination is
	// in flight (the call itself proceeds)
	for _, sg := range []string{"SIGTERM", "SIGINT"} {
		if n := calls["src:read"]; n > 0 {
			one(CliFault{Target: "src", Syscall: "read", Errno: sg, When: 1 + r.Intn(n)})
		}
		if n := calls["dst:write"]; n > 0 {
			one(CliFault{Target: "dst", Syscall: "write", Errno: sg, When: 1 + r.Intn(n)})
		}
	}
	if n := calls["dst:openat"]; n > 0 {
		one(CliFault{Target: "dst", Syscall: "openat", Errno: "SIGTERM", When: 1})
	}
	if n := calls["dst:close"]; n > 0 {
		one(CliFault{Target: "dst", Syscall: "close", Errno: "SIGTERM", When: 1})
	}
	nw := calls["dst:write"]
	pos := map[int]bool{}
	for _, k := range []int{1, 2, 3, nw - 1, nw} {
		if k >= 1 && k <= nw {
			pos[k] = true
		}
	}
	for i := 0; i < writeSamples && len(pos) < nw; i++ {
		pos[1+r.Intn(nw)] = true
	}
	var ks []int
	for k := range pos {
		ks = append(ks, k)
	}
	sort.Ints(ks)
	// EPIPE is not injected: on descriptors 1 and 2 the Go runtime turns it
	// into a fatal SIGPIPE before the program sees the error, so a message
	// cannot be demanded
	errs := []string{"ENOSPC", "EIO", "EDQUOT", "EFBIG", "EROFS", "ENOMEM", "EBADF", "ESTALE", "EPERM"}
	for i, k := range ks {
		one(CliFault{Target: "dst", Syscall: "write", Errno: errs[i%len(errs)], When: k})
		if i%2 == 0 {
			one(CliFault{Target: "dst", Syscall: "write", Errno: errs[(i+1)%len(errs)], When: k, Persistent: true})
		}
	}
	return out
}

type cliStats struct {
	mu            sync.Mutex
	Runs          int
	FaultFree     int
	Fired         map[string]int // syscall:errno → runs in which it fired
	NotFired      int
	Expect        map[string]int
	ExitZero      int
	Samples       []any
	Distinct      map[string]bool
	DistinctFault map[string]bool
}

// CheckC18 is the entry point of the C18 check.
func CheckC18(e *Env) (int, error) {
	sc, err := NewScratch("c18")
	if err != nil {
		return 2, err
	}
	defer sc.Remove()
	rig, err := newCliRig(e, sc)
	if err != nil {
		return 2, err
	}
	quick := e.Tier != "thorough"
	nScen, nGen, wSamples, pairs := 140, 24, 6, 0
	if !quick {
		nScen, nGen, wSamples, pairs = 1200, 120, 24, 6
	}
	r := simrt.NewRNG(simrt.Derive(e.Seed, "C18"))
	texts := e.cliTexts(sc.Path("repo"), r, nGen)
	scens := e.cliScenarios(texts, r, nScen)
	st := &cliStats{Fired: map[string]int{}, Expect: map[string]int{}, Distinct: map[string]bool{}, DistinctFault: map[string]bool{}}
	var vmu sync.Mutex
	var viols []Violation
	seenKey := map[string]bool{}
	caseNo := 0
	var cmu sync.Mutex
	nextDir := func() string {
		cmu.Lock()
		defer cmu.Unlock()
		caseNo++
		return sc.Path("runs", fmt.Sprintf("r%06d", caseNo))
	}
	evalCase := func(c *CliCase, traceAll bool) (*cliObs, *cliVerdict, error) {
		dir := nextDir()
		obs, err := rig.run(c, dir, traceAll)
		if err != nil {
			return nil, nil, err
		}
		v, err := rig.judge(c, obs, dir)
		if err != nil {
			return nil, nil, err
		}
		st.mu.Lock()
		st.Runs++
		if v.Fired {
			for _, in := range obs.Injected {
				st.Fired[in.Syscall+":"+in.Errno]++
			}
			st.DistinctFault[fmt.Sprintf("%d|%s", c.Sc.ID, v.FaultKey+fmt.Sprint(c.Faults))] = true
		} else if len(c.Faults) > 0 {
			st.NotFired++
		} else {
			st.FaultFree++
		}
		st.Expect[v.Expect]++
		if obs.Exit == 0 {
			st.ExitZero++
		}
		st.Distinct[fmt.Sprintf("%s|%s|%s|%v|%s|%s|%d", c.Sc.TextKind, c.Sc.Source, c.Sc.Dest, c.Sc.Opts, v.FaultKey, v.Expect, obs.Exit)] = true
		if len(st.Samples) < 12 && (v.Fired || st.Runs%7 == 0) {
			st.Samples = append(st.Samples, map[string]any{"text": c.Sc.TextName, "source": c.Sc.Source, "dest": c.Sc.Dest, "opts": c.Sc.Opts,
				"faults_planned": fmt.Sprint(c.Faults), "fired": v.FaultKey, "expect": v.Expect, "exit": obs.Exit})
		}
		st.mu.Unlock()
		if v.Class != "" {
			vmu.Lock()
			k := v.Class + "|" + c.key(v)
			if !seenKey[k] {
				seenKey[k] = true
				viols = append(viols, Violation{Property: "C18", Class: v.Class, Key: c.key(v), Detail: v.Detail + "\n" + describeCli(c, &rig.peg), Replay: c})
			}
			vmu.Unlock()
		}
		return obs, v, nil
	}
	err = ParallelDo(len(scens), e.Jobs, func(i int) error {
		s := scens[i]
		base := &CliCase{Sc: s}
		obs, _, err := evalCase(base, true)
		if err != nil {
			return err
		}
		fr := simrt.NewRNG(simrt.DeriveN(e.Seed, "C18-faults", i))
		fl := faultsFor(&s, obs.Calls, fr, wSamples)
		// seeded pairs: premature EOF + later write error; two write errors
		for p := 0; p < pairs && obs.Calls["src:read"] > 0 && obs.Calls["dst:write"] > 2; p++ {
			a := CliFault{Target: "src", Syscall: "read", Errno: "EOF", When: 1 + fr.Intn(obs.Calls["src:read"])}
			b := CliFault{Target: "dst", Syscall: "write", Errno: "ENOSPC", When: 1 + fr.Intn(obs.Calls["dst:write"])}
			if p%2 == 1 {
				a = CliFault{Target: "dst", Syscall: "close", Errno: "EIO", When: 1}
			}
			fl = append(fl, []CliFault{a, b})
		}
		for _, fs := range fl {
			c := &CliCase{Sc: s, Faults: fs}
			if _, _, err := evalCase(c, false); err != nil {
				return err
			}
		}
		return nil
	})
	if err != nil {
		return 2, err
	}
	// a broken scenario violates under every one of its faults: keep the
	// simplest dozen (fewest faults first, one per class and scenario shape
	// before a second of the same), minimise those
	if len(viols) > 12 {
		sort.SliceStable(viols, func(i, j int) bool {
			a, b := viols[i].Replay.(*CliCase), viols[j].Replay.(*CliCase)
			if len(a.Faults) != len(b.Faults) {
				return len(a.Faults) < len(b.Faults)
			}
			return viols[i].Class+"|"+viols[i].Key < viols[j].Class+"|"+viols[j].Key
		})
		seenShape := map[string]bool{}
		var first, rest []Violation
		for _, v := range viols {
			c := v.Replay.(*CliCase)
			shape := fmt.Sprintf("%s|%s|%s|%s|%d|%s|%s", v.Class, c.Sc.TextKind, c.Sc.Source, c.Sc.Dest, c.Sc.Spell, c.Sc.GName, c.Sc.DName)
			if !seenShape[shape] {
				seenShape[shape] = true
				first = append(first, v)
			} else {
				rest = append(rest, v)
			}
		}
		fmt.Printf("C18: %d violating runs; minimising and reporting the simplest 12\n", len(viols))
		viols = append(first, rest...)[:12]
	}
	// minimise: prefer the scenario with fewest faults / shortest text per key
	for i := range viols {
		viols[i] = rig.shrinkCli(viols[i], nextDir)
	}
	{
		// after minimisation several counter-examples may coincide
		seen := map[string]bool{}
		var uniq []Violation
		for _, v := range viols {
			k := v.Class + "|" + v.Key
			if !seen[k] {
				seen[k] = true
				uniq = append(uniq, v)
			}
		}
		viols = uniq
	}
	firedKinds := map[string]int{}
	totalFired := 0
	for k, n := range st.Fired {
		firedKinds[k] = n
		totalFired += n
	}
	wall := time.Since(e.Start).Seconds()
	ev := &Evidence{PropertyID: "C18", Level: "fault_enumeration", Violations: len(viols),
		Coverage: map[string]any{
			"evaluations":                     st.Runs,
			"distinct_nontrivial":             len(st.DistinctFault),
			"rule":                            "one evaluation = one execution of the real peg binary in a fresh directory, judged by the executable model of the CLI contract; scenarios (grammar text x source x destination x options) are drawn from VERIF_SEED; for each scenario the fault-free trace is recorded and every openat/read/close position plus a seeded sample of write positions (always first three and last two) is injected with an errno or a premature EOF by the ptrace fault injector; distinct_nontrivial counts distinct (scenario, planned fault, fault that actually fired) triples in which the injector reports that the fault was applied to a call, i.e. it really hit an in-flight operation",
			"samples":                         st.Samples,
			"scenarios":                       len(scens),
			"fault_free_runs":                 st.FaultFree,
			"faults_fired_by_kind":            firedKinds,
			"faults_fired_total":              totalFired,
			"faults_configured_but_not_fired": st.NotFired,
			"expectation_histogram":           st.Expect,
			"runs_with_exit_zero":             st.ExitZero,
			"distinct_behaviour_classes":      len(st.Distinct),
			"runs_per_hour":                   int(float64(st.Runs) / wall * 3600),
			"seeds":                           1,
			"simulated_time":                  "n/a — the system under test reads no clock",
			"traces_validated_against_impl":   st.Runs,
			"components_real":                 []string{"peg binary built from /repo's working tree (main.go, front end, tree, set)", "Linux kernel file system for ENOENT/EISDIR/ENOTDIR//dev/full"},
			"components_stub":                 []string{"none: faults are injected at the system-call boundary by /verif/internal/ptrace (the call is skipped and the chosen errno or a zero-length read is returned); calls are counted globally per (path, system call), so a position is exact and replayable"},
			"reference":                       "library path (repository front end + tree.New + Compile) run in a separate process",
		},
		Assumptions: []string{
			"the ptrace injector (internal/ptrace) skips the chosen call and returns the chosen errno; its fault-free trace is cross-checked against strace by `verif selftest tracer`",
			"successful-but-lying writes (short or lost without error) are not injected: the program cannot detect them",
			"EINTR/EAGAIN are not injected: the Go runtime retries them below the code under test",
			"the reference bytes come from the same tree/front-end code (C18 is about main.go's contract, not about what Compile emits)",
		}}
	if err := e.WriteEvidence(ev); err != nil {
		return 2, err
	}
	exit, n := e.Report("clisim", "C18", viols)
	fmt.Printf("C18 %s: %d runs (%d scenarios, %d fault-free, %d with a fired fault, %d planned faults did not fire), %d violation(s), %.1fs\n",
		e.Tier, st.Runs, len(scens), st.FaultFree, totalFiredRuns(st), st.NotFired, n, wall)
	return exit, nil
}

func totalFiredRuns(st *cliStats) int { return st.Runs - st.FaultFree - st.NotFired }

func describeCli(c *CliCase, peg *string) string {
	l := c.Sc.layout("<dir>")
	return fmt.Sprintf("scenario: text=%s(%s) source=%s dest=%s argv=peg %s faults=%v", c.Sc.TextName, c.Sc.TextKind, c.Sc.Source, c.Sc.Dest, strings.Join(l.argv, " "), c.Faults)
}

func newCliRig(e *Env, sc *Scratch) (*cliRig, error) {
	self, err := os.Executable()
	if err != nil {
		return nil, infra("cannot find my own executable: %v", err)
	}
	repo := sc.Path("repo")
	if err := CopyTree(e.RepoDir, repo); err != nil {
		return nil, infra("copy %s: %v", e.RepoDir, err)
	}
	rig := &cliRig{env: e, sc: sc, peg: sc.Path("peg"), refgen: sc.Path("refgen"), self: self, refCache: map[string]*refResp{}}
	if err := e.BuildPeg(repo, rig.peg, false); err != nil {
		return nil, err
	}
	// unprivileged scenarios: the scratch directory must be traversable and
	// the binary executable for user nobody
	_ = os.Chmod(sc.Dir, 0o755)
	_ = os.Chmod(rig.peg, 0o755)
	_ = os.MkdirAll(sc.Path("runs"), 0o755)
	if err := CopyFrontEnd(repo); err != nil {
		return nil, infra("front end: %v", err)
	}
	if err := e.CopyRunner(repo, "refgen"); err != nil {
		return nil, infra("refgen: %v", err)
	}
	if o, err := e.Go(repo, e.GoEnv(), "build", "-trimpath", "-tags", "zzsim", "-o", rig.refgen, "./zzsim/refgen"); err != nil {
		return nil, infra("building refgen failed: %v\n%s", err, o)
	}
	e.Logf("built peg and refgen")
	return rig, nil
}

// shrinkCli minimises a violating case while the same class persists: drop
// faults, drop options, replace the text by shorter texts of the same kind.
func (rig *cliRig) shrinkCli(v Violation, nextDir func() string) Violation {
	c := *(v.Replay.(*CliCase))
	try := func(cand CliCase) bool {
		d := nextDir()
		obs, err := rig.run(&cand, d, false)
		if err != nil {
			return false
		}
		vd, err := rig.judge(&cand, obs, d)
		if err != nil || vd.Class != v.Class {
			return false
		}
		v.Detail = vd.Detail + "\n" + describeCli(&cand, &rig.peg)
		v.Key = cand.key(vd)
		return true
	}
	for i := 0; i < len(c.Faults); {
		cand := c
		cand.Faults = append(append([]CliFault{}, c.Faults[:i]...), c.Faults[i+1:]...)
		if try(cand) {
			c = cand
		} else {
			i++
		}
	}
	for i := 0; i < len(c.Sc.Opts); {
		cand := c
		cand.Sc.Opts = append(append([]string{}, c.Sc.Opts[:i]...), c.Sc.Opts[i+1:]...)
		if try(cand) {
			c = cand
		} else {
			i++
		}
	}
	small := map[string]string{
		"valid":   "package p\n\ntype T Peg {}\n\nS <- 'a'\n",
		"warned":  "package p\n\ntype T Peg {}\n\nS <- 'a'\nU <- 'b'\n",
		"invalid": "x",
	}
	if t, ok := small[c.Sc.TextKind]; ok && len(t) < len(c.Sc.Text) {
		cand := c
		cand.Sc.Text, cand.Sc.TextName = t, "minimal-"+c.Sc.TextKind
		if try(cand) {
			c = cand
		}
	}
	if c.Sc.Abs {
		cand := c
		cand.Sc.Abs = false
		if try(cand) {
			c = cand
		}
	}
	v.Replay = &c
	return v
}

// ReplayC18 re-executes a replay file against /repo's current tree.
func ReplayC18(e *Env, rf *ReplayFile) (int, error) {
	var c CliCase
	if err := json.Unmarshal(rf.Payload, &c); err != nil {
		return 2, err
	}
	sc, err := NewScratch("c18r")
	if err != nil {
		return 2, err
	}
	defer sc.Remove()
	rig, err := newCliRig(e, sc)
	if err != nil {
		return 2, err
	}
	obs, err := rig.run(&c, sc.Path("run"), false)
	if err != nil {
		return 2, err
	}
	v, err := rig.judge(&c, obs, sc.Path("run"))
	if err != nil {
		return 2, err
	}
	fmt.Printf("replay C18: %s\n  exit=%d expect=%s fired=%s stderr=%q\n", describeCli(&c, &rig.peg), obs.Exit, v.Expect, v.FaultKey, clipStr(obs.Stderr, 300))
	if v.Class != "" {
		fmt.Printf("VIOLATION property=C18 replay=%s\n  class=%s\n  %s\n", os.Getenv("VERIF_REPLAY_PATH"), v.Class, v.Detail)
		if v.Class != rf.Class {
			fmt.Printf("  note: recorded class was %s\n", rf.Class)
		}
		return 1, nil
	}
	fmt.Println("replay C18: property held on this case")
	return 0, nil
}
