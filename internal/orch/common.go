// Package orch is the orchestrator side of the checks: it copies /repo's
// working tree into a scratch directory, builds pristine and woven binaries
// there, drives the simulated runs in worker processes, shrinks violations,
// writes replay files and evidence, and removes the scratch directory.
package orch

import (
	"bytes"
	"encoding/json"
	"errors"
	"fmt"
	"io"
	"io/fs"
	"os"
	"os/exec"
	"path/filepath"
	"runtime"
	"strconv"
	"strings"
	"sync"
	"time"

	"verif/internal/weave"
)

// Infra is an error of the machinery itself (build trouble, watchdog, ptrace
// unavailable…): exit status 2, never a VIOLATION line.
type Infra struct{ Err error }

func (e Infra) Error() string { return "infrastructure: " + e.Err.Error() }
func infra(format string, a ...any) error {
	return Infra{fmt.Errorf(format, a...)}
}

type Env struct {
	VerifDir string
	RepoDir  string
	GoBin    string
	Seed     uint64
	Tier     string
	Jobs     int
	Verbose  bool
	Start    time.Time
}

func NewEnv(tier string) (*Env, error) {
	wd, err := os.Getwd()
	if err != nil {
		return nil, err
	}
	e := &Env{VerifDir: wd, RepoDir: "/repo", GoBin: "go1.26.8", Tier: tier, Jobs: runtime.NumCPU(), Start: time.Now()}
	if v := os.Getenv("VERIF_HOME"); v != "" {
		e.VerifDir = v
	}
	if v := os.Getenv("VERIF_REPO"); v != "" {
		e.RepoDir = v
	}
	if v := os.Getenv("VERIF_GO"); v != "" {
		e.GoBin = v
	}
	if v := os.Getenv("VERIF_JOBS"); v != "" {
		if n, err := strconv.Atoi(v); err == nil && n > 0 {
			e.Jobs = n
		}
	}
	e.Seed = 1
	if v := os.Getenv("VERIF_SEED"); v != "" {
		n, err := strconv.ParseInt(v, 0, 64)
		if err != nil {
			u, err2 := strconv.ParseUint(v, 0, 64)
			if err2 != nil {
				return nil, fmt.Errorf("VERIF_SEED: %v", err)
			}
			n = int64(u)
		}
		e.Seed = uint64(n)
	}
	e.Verbose = os.Getenv("VERIF_VERBOSE") != ""
	if _, err := os.Stat(filepath.Join(e.VerifDir, "internal", "simrt", "sched.go")); err != nil {
		return nil, fmt.Errorf("cannot find the framework sources under %s (run from /verif or set VERIF_HOME)", e.VerifDir)
	}
	return e, nil
}

func (e *Env) Logf(format string, a ...any) {
	if e.Verbose {
		fmt.Fprintf(os.Stderr, "[%6.1fs] "+format+"\n", append([]any{time.Since(e.Start).Seconds()}, a...)...)
	}
}

func (e *Env) GoEnv() []string {
	env := os.Environ()
	env = append(env, "GOFLAGS=-mod=mod", "GOPROXY=off", "GOSUMDB=off", "GOTOOLCHAIN=local", "GOWORK=off", "CGO_ENABLED=0")
	return env
}

func (e *Env) GoEnvRace() []string {
	env := os.Environ()
	env = append(env, "GOFLAGS=-mod=mod", "GOPROXY=off", "GOSUMDB=off", "GOTOOLCHAIN=local", "GOWORK=off", "CGO_ENABLED=1")
	return env
}

// Go runs the go tool in dir and returns combined output.
func (e *Env) Go(dir string, env []string, args ...string) (string, error) {
	cmd := exec.Command(e.GoBin, args...)
	cmd.Dir = dir
	cmd.Env = env
	var out bytes.Buffer
	cmd.Stdout, cmd.Stderr = &out, &out
	err := cmd.Run()
	return out.String(), err
}

// Scratch is a temporary working area outside /repo and /verif.
type Scratch struct {
	Dir string
}

func NewScratch(tag string) (*Scratch, error) {
	base := os.Getenv("VERIF_SCRATCH")
	if base == "" {
		base = os.TempDir()
	}
	d, err := os.MkdirTemp(base, "verif-"+tag+"-")
	if err != nil {
		return nil, err
	}
	return &Scratch{Dir: d}, nil
}

func (s *Scratch) Remove() {
	if os.Getenv("VERIF_KEEP") != "" {
		fmt.Fprintln(os.Stderr, "keeping scratch", s.Dir)
		return
	}
	_ = os.RemoveAll(s.Dir)
}

func (s *Scratch) Path(parts ...string) string {
	return filepath.Join(append([]string{s.Dir}, parts...)...)
}

// CopyTree copies a directory tree (regular files and directories) without
// .git.
func CopyTree(src, dst string) error {
	return filepath.WalkDir(src, func(p string, d fs.DirEntry, err error) error {
		if err != nil {
			return err
		}
		rel, _ := filepath.Rel(src, p)
		if rel == ".git" {
			if d.IsDir() {
				return filepath.SkipDir
			}
			return nil
		}
		t := filepath.Join(dst, rel)
		if d.IsDir() {
			return os.MkdirAll(t, 0o755)
		}
		if !d.Type().IsRegular() {
			return nil
		}
		return CopyFile(p, t)
	})
}

func CopyFile(src, dst string) error {
	in, err := os.Open(src)
	if err != nil {
		return err
	}
	defer in.Close()
	st, err := in.Stat()
	if err != nil {
		return err
	}
	if err := os.MkdirAll(filepath.Dir(dst), 0o755); err != nil {
		return err
	}
	out, err := os.OpenFile(dst, os.O_CREATE|os.O_TRUNC|os.O_WRONLY, st.Mode().Perm()|0o200)
	if err != nil {
		return err
	}
	if _, err := io.Copy(out, in); err != nil {
		out.Close()
		return err
	}
	return out.Close()
}

// CopySimrt copies the simulator runtime into <repoCopy>/zzsim/simrt and
// writes sites_gen.go.
func (e *Env) CopySimrt(repoCopy string, nsites int) error {
	src := filepath.Join(e.VerifDir, "internal", "simrt")
	dst := filepath.Join(repoCopy, "zzsim", "simrt")
	ents, err := os.ReadDir(src)
	if err != nil {
		return err
	}
	for _, en := range ents {
		n := en.Name()
		if en.IsDir() || strings.HasSuffix(n, "_test.go") {
			continue
		}
		if err := CopyFile(filepath.Join(src, n), filepath.Join(dst, n)); err != nil {
			return err
		}
	}
	gen := fmt.Sprintf("package simrt\n\nfunc init() { NSites = %d }\n", nsites)
	return os.WriteFile(filepath.Join(dst, "sites_gen.go"), []byte(gen), 0o644)
}

// CopyRunner copies /verif/runners/<name> into <repoCopy>/zzsim/<name>.
func (e *Env) CopyRunner(repoCopy, name string) error {
	src := filepath.Join(e.VerifDir, "runners", name)
	dst := filepath.Join(repoCopy, "zzsim", name)
	ents, err := os.ReadDir(src)
	if err != nil {
		return err
	}
	for _, en := range ents {
		if en.IsDir() {
			continue
		}
		if err := CopyFile(filepath.Join(src, en.Name()), filepath.Join(dst, en.Name())); err != nil {
			return err
		}
	}
	return nil
}

// CopyFrontEnd makes the repository's self-hosted front end (package main,
// peg.peg.go) importable as a library package <repoCopy>/zzsim/frontend.
func CopyFrontEnd(repoCopy string) error {
	src, err := os.ReadFile(filepath.Join(repoCopy, "peg.peg.go"))
	if err != nil {
		return err
	}
	i := bytes.Index(src, []byte("\npackage main"))
	if i < 0 {
		return errors.New("peg.peg.go: no 'package main' clause")
	}
	out := append([]byte{}, src[:i]...)
	out = append(out, []byte("\npackage frontend")...)
	out = append(out, src[i+len("\npackage main"):]...)
	dst := filepath.Join(repoCopy, "zzsim", "frontend")
	if err := os.MkdirAll(dst, 0o755); err != nil {
		return err
	}
	return os.WriteFile(filepath.Join(dst, "peg.peg.go"), out, 0o644)
}

// BuildPeg builds the real peg binary from a repository copy.
func (e *Env) BuildPeg(repoCopy, out string, race bool) error {
	args := []string{"build", "-trimpath", "-o", out}
	env := e.GoEnv()
	if race {
		args = append(args, "-race")
		env = e.GoEnvRace()
	}
	args = append(args, ".")
	if o, err := e.Go(repoCopy, env, args...); err != nil {
		return infra("building peg from %s failed: %v\n%s", repoCopy, err, o)
	}
	return nil
}

func WriteSites(path string, w *weave.Weaver) error {
	b, _ := json.Marshal(w.Sites)
	return os.WriteFile(path, b, 0o644)
}

// ParallelDo runs f(i) for i in [0,n) on at most jobs goroutines.
func ParallelDo(n, jobs int, f func(i int) error) error {
	if jobs < 1 {
		jobs = 1
	}
	var wg sync.WaitGroup
	var mu sync.Mutex
	var first error
	next := 0
	for range jobs {
		wg.Go(func() {
			for {
				mu.Lock()
				i := next
				next++
				stop := first != nil
				mu.Unlock()
				if i >= n || stop {
					return
				}
				if err := f(i); err != nil {
					mu.Lock()
					if first == nil {
						first = err
					}
					mu.Unlock()
				}
			}
		})
	}
	wg.Wait()
	return first
}

// RunCmd runs a command with a wall-clock watchdog.
func RunCmd(timeout time.Duration, dir string, env []string, stdin []byte, name string, args ...string) (stdout, stderr []byte, exit int, err error) {
	cmd := exec.Command(name, args...)
	cmd.Dir = dir
	cmd.Env = env
	if stdin != nil {
		cmd.Stdin = bytes.NewReader(stdin)
	}
	var so, se bytes.Buffer
	cmd.Stdout, cmd.Stderr = &so, &se
	if err := cmd.Start(); err != nil {
		return nil, nil, -1, err
	}
	done := make(chan error, 1)
	go func() { done <- cmd.Wait() }()
	select {
	case werr := <-done:
		exit = cmd.ProcessState.ExitCode()
		if werr != nil {
			var ee *exec.ExitError
			if !errors.As(werr, &ee) {
				return so.Bytes(), se.Bytes(), exit, werr
			}
		}
		return so.Bytes(), se.Bytes(), exit, nil
	case <-time.After(timeout):
		_ = cmd.Process.Kill()
		<-done
		return so.Bytes(), se.Bytes(), -1, fmt.Errorf("watchdog: %s did not finish within %v", name, timeout)
	}
}
