package orch

import (
	"fmt"
	"os"
)

var Checks = map[string]func(*Env) (int, error){
	"C06": CheckC06,
	"C09": CheckC09,
	"C12": CheckC12,
	"C14": CheckC14,
	"C18": CheckC18,
}

var Replays = map[string]func(*Env, *ReplayFile) (int, error){
	"clisim": ReplayC18,
	"parsim": ReplayParsim,
	"gensim": ReplayGensim,
}

func getenv(k, def string) string {
	if v := os.Getenv(k); v != "" {
		return v
	}
	return def
}

// Setup warms the build cache (standard library with and without the race
// detector) so that the first check after a fresh restore is not dominated
// by it. Everything is built from files on disk.
func Setup(e *Env) (int, error) {
	if o, err := e.Go(e.VerifDir, e.GoEnv(), "build", "std"); err != nil {
		return 2, infra("go build std: %v\n%s", err, o)
	}
	if o, err := e.Go(e.VerifDir, e.GoEnvRace(), "build", "-race", "std"); err != nil {
		fmt.Fprintf(os.Stderr, "warning: race-enabled standard library did not build: %v\n%s\n", err, o)
	}
	fmt.Println("setup ok")
	return 0, nil
}
