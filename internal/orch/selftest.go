package orch

import (
	"fmt"
	"os"
	"os/exec"
	"path/filepath"
	"sort"
	"strings"
	"time"
)

// Selftest runs the self-tests of the machinery (not registered as checks).
func Selftest(e *Env, args []string) (int, error) {
	if len(args) == 0 {
		return 2, fmt.Errorf("selftest: sensitivity [pattern] | determinism [property…]")
	}
	switch args[0] {
	case "sensitivity":
		pat := ""
		if len(args) > 1 {
			pat = args[1]
		}
		return selftestSensitivity(e, pat)
	case "determinism":
		return selftestDeterminism(e, args[1:])
	}
	return 2, fmt.Errorf("unknown selftest %q", args[0])
}

// selftestSensitivity applies every patch in mutants/ (named
// <property>-<what>.patch) to a scratch copy of the repository and requires
// the property's quick check to report a violation.
func selftestSensitivity(e *Env, pattern string) (int, error) {
	dir := filepath.Join(e.VerifDir, "mutants")
	ents, err := os.ReadDir(dir)
	if err != nil {
		return 2, err
	}
	var names []string
	for _, en := range ents {
		if strings.HasSuffix(en.Name(), ".patch") && strings.Contains(en.Name(), pattern) {
			names = append(names, en.Name())
		}
	}
	sort.Strings(names)
	self, _ := os.Executable()
	missed := 0
	for _, n := range names {
		prop := n[:strings.IndexByte(n, '-')]
		sc, err := NewScratch("mut")
		if err != nil {
			return 2, err
		}
		repo := sc.Path("repo")
		if err := CopyTree(e.RepoDir, repo); err != nil {
			sc.Remove()
			return 2, err
		}
		cmd := exec.Command("patch", "-p1", "-s", "-i", filepath.Join(dir, n))
		cmd.Dir = repo
		if out, err := cmd.CombinedOutput(); err != nil {
			fmt.Printf("%-40s PATCH DOES NOT APPLY: %s\n", n, firstLine(string(out)))
			sc.Remove()
			missed++
			continue
		}
		t0 := time.Now()
		env := append(os.Environ(), "VERIF_REPO="+repo, "VERIF_HOME="+e.VerifDir, "VERIF_EVIDENCE_DIR="+sc.Path("evidence"), "VERIF_REPLAY_DIR="+sc.Path("replays"))
		so, se, exit, err := RunCmd(60*time.Minute, e.VerifDir, env, nil, self, "check", prop, "quick")
		status := ""
		if b, err := os.ReadFile(filepath.Join(dir, strings.TrimSuffix(n, ".patch")+".status")); err == nil {
			status = strings.TrimSpace(string(b))
		}
		switch {
		case err != nil:
			fmt.Printf("%-40s ERROR %v\n", n, err)
			missed++
		case exit == 1:
			class := ""
			for _, l := range strings.Split(string(so), "\n") {
				if strings.Contains(l, "class=") {
					class = strings.TrimSpace(l)
					break
				}
			}
			fmt.Printf("%-40s caught in %5.1fs  %s   [%s]\n", n, time.Since(t0).Seconds(), clipStr(class, 90), status)
		case exit == 0:
			fmt.Printf("%-40s MISSED (%5.1fs)   [%s]\n", n, time.Since(t0).Seconds(), status)
			missed++
		default:
			fmt.Printf("%-40s check broke (exit %d): %s\n", n, exit, clipStr(lastLine(string(se)), 200))
			missed++
		}
		sc.Remove()
	}
	if missed > 0 {
		return 1, nil
	}
	return 0, nil
}

func selftestDeterminism(e *Env, props []string) (int, error) {
	return 2, fmt.Errorf("not implemented yet")
}
