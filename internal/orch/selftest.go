package orch

import (
	"encoding/json"
	"fmt"
	"os"
	"os/exec"
	"path/filepath"
	"sort"
	"strings"
	"sync"
	"time"
)

// Selftest runs the self-tests of the machinery (not registered as checks).
func Selftest(e *Env, args []string) (int, error) {
	if len(args) == 0 {
		return 2, fmt.Errorf("selftest: sensitivity [pattern] | determinism [property…]")
	}
	switch args[0] {
	case "sensitivity":
		pat := ""
		if len(args) > 1 {
			pat = args[1]
		}
		return selftestSensitivity(e, pat)
	case "determinism":
		return selftestDeterminism(e, args[1:])
	}
	return 2, fmt.Errorf("unknown selftest %q", args[0])
}

// selftestSensitivity applies every patch in mutants/ (named
// <property>-<what>.patch) to a scratch copy of the repository and requires
// the property's quick check to report a violation.
func selftestSensitivity(e *Env, pattern string) (int, error) {
	dir := filepath.Join(e.VerifDir, "mutants")
	ents, err := os.ReadDir(dir)
	if err != nil {
		return 2, err
	}
	var names []string
	for _, en := range ents {
		if strings.HasSuffix(en.Name(), ".patch") && strings.Contains(en.Name(), pattern) {
			names = append(names, en.Name())
		}
	}
	sort.Strings(names)
	self, _ := os.Executable()
	missed := 0
	for _, n := range names {
		prop := n[:strings.IndexByte(n, '-')]
		sc, err := NewScratch("mut")
		if err != nil {
			return 2, err
		}
		repo := sc.Path("repo")
		if err := CopyTree(e.RepoDir, repo); err != nil {
			sc.Remove()
			return 2, err
		}
		cmd := exec.Command("patch", "-p1", "-s", "-i", filepath.Join(dir, n))
		cmd.Dir = repo
		if out, err := cmd.CombinedOutput(); err != nil {
			fmt.Printf("%-40s PATCH DOES NOT APPLY: %s\n", n, firstLine(string(out)))
			sc.Remove()
			missed++
			continue
		}
		t0 := time.Now()
		env := append(os.Environ(), "VERIF_REPO="+repo, "VERIF_HOME="+e.VerifDir, "VERIF_EVIDENCE_DIR="+sc.Path("evidence"), "VERIF_REPLAY_DIR="+sc.Path("replays"))
		so, se, exit, err := RunCmd(60*time.Minute, e.VerifDir, env, nil, self, "check", prop, "quick")
		status := ""
		if b, err := os.ReadFile(filepath.Join(dir, strings.TrimSuffix(n, ".patch")+".status")); err == nil {
			status = strings.TrimSpace(string(b))
		}
		switch {
		case err != nil:
			fmt.Printf("%-40s ERROR %v\n", n, err)
			missed++
		case exit == 1:
			class := ""
			for _, l := range strings.Split(string(so), "\n") {
				if strings.Contains(l, "class=") {
					class = strings.TrimSpace(l)
					break
				}
			}
			fmt.Printf("%-40s caught in %5.1fs  %s   [%s]\n", n, time.Since(t0).Seconds(), clipStr(class, 90), status)
		case exit == 0:
			fmt.Printf("%-40s MISSED (%5.1fs)   [%s]\n", n, time.Since(t0).Seconds(), status)
			missed++
		default:
			fmt.Printf("%-40s check broke (exit %d): %s\n", n, exit, clipStr(lastLine(string(se)), 200))
			missed++
		}
		sc.Remove()
	}
	if missed > 0 {
		return 1, nil
	}
	return 0, nil
}

// selftestDeterminism: the same job ranges are executed in separate worker
// processes under GOMAXPROCS 1, 4 and 16, twice each; the digests of every
// result (schedule-log hashes, statistics, violation classes) must be equal.
func selftestDeterminism(e *Env, props []string) (int, error) {
	if len(props) == 0 {
		props = []string{"C06", "C12", "C14", "C09"}
	}
	bad := 0
	for _, prop := range props {
		sc, err := NewScratch("det")
		if err != nil {
			return 2, err
		}
		var run func(from, to int, procs string) (string, error)
		switch prop {
		case "C06", "C12", "C14":
			specs, err := e.parsimSpecs(10, 24, 2, false)
			if err != nil {
				sc.Remove()
				return 2, err
			}
			rig, err := buildParsim(e, sc, specs, false, true)
			if err != nil {
				sc.Remove()
				return 2, err
			}
			mode := strings.ToLower(prop)
			run = func(from, to int, procs string) (string, error) {
				res, err := rig.runJob(&PJob{Mode: mode, Seed: e.Seed, From: from, To: to, Env: []string{"GOMAXPROCS=" + procs}}, false, 20*time.Minute)
				if err != nil {
					return "", err
				}
				sort.Slice(res.Sigs, func(i, j int) bool { return res.Sigs[i] < res.Sigs[j] })
				sort.Slice(res.Adjacent, func(i, j int) bool { return res.Adjacent[i] < res.Adjacent[j] })
				res.Samples = nil
				b, _ := json.Marshal(res)
				return string(b), nil
			}
		case "C09":
			rig, err := buildGensim(e, sc, e.gensimTexts(6, false), false)
			if err != nil {
				sc.Remove()
				return 2, err
			}
			run = func(from, to int, procs string) (string, error) {
				res, err := rig.runJob(&GJob{Seed: e.Seed, From: from, To: to, Env: []string{"GOMAXPROCS=" + procs}}, false, 20*time.Minute)
				if err != nil {
					return "", err
				}
				sort.Slice(res.Sigs, func(i, j int) bool { return res.Sigs[i] < res.Sigs[j] })
				sort.Slice(res.Adjacent, func(i, j int) bool { return res.Adjacent[i] < res.Adjacent[j] })
				res.Samples = nil
				b, _ := json.Marshal(res)
				return string(b), nil
			}
		default:
			sc.Remove()
			return 2, fmt.Errorf("no determinism self-test for %s", prop)
		}
		chunks, per := 32, 40
		if prop == "C09" {
			per = 6
		}
		diverged := 0
		var mu sync.Mutex
		err = ParallelDo(chunks, e.Jobs, func(i int) error {
			var ref string
			for rep := 0; rep < 2; rep++ {
				for _, procs := range []string{"1", "4", "16"} {
					got, err := run(i*per, (i+1)*per, procs)
					if err != nil {
						return err
					}
					if ref == "" {
						ref = got
					} else if got != ref {
						mu.Lock()
						diverged++
						if diverged <= 3 {
							fmt.Printf("%s: range [%d,%d) diverges under GOMAXPROCS=%s (rep %d)\n  %s\n  %s\n", prop, i*per, (i+1)*per, procs, rep, clipStr(ref, 400), clipStr(got, 400))
						}
						mu.Unlock()
					}
				}
			}
			return nil
		})
		sc.Remove()
		if err != nil {
			return 2, err
		}
		fmt.Printf("%s determinism: %d job ranges x %d cases x 6 executions (GOMAXPROCS 1/4/16, twice), %d divergent\n", prop, chunks, per, diverged)
		bad += diverged
	}
	if bad > 0 {
		return 1, nil
	}
	return 0, nil
}
