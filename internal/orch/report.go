package orch

import (
	"encoding/json"
	"fmt"
	"os"
	"path/filepath"
	"sort"
	"strings"
	"time"
)

// Violation is one counter-example found by a check, already minimised.
type Violation struct {
	Property string `json:"property"`
	Class    string `json:"class"`  // violation class (kept constant while shrinking)
	Key      string `json:"key"`    // identifies the failing input/call site/history for known-findings matching
	Detail   string `json:"detail"` // human-readable: what was expected, what was observed
	Replay   any    `json:"replay"` // engine-specific replay payload
}

type ReplayFile struct {
	Property string          `json:"property"`
	Engine   string          `json:"engine"`
	Seed     uint64          `json:"seed"`
	Tier     string          `json:"tier"`
	Class    string          `json:"class"`
	Key      string          `json:"key"`
	Detail   string          `json:"detail"`
	Payload  json.RawMessage `json:"payload"`
}

type Finding struct {
	Property string `json:"property"`
	Status   string `json:"status"` // open | fixed
	Commit   string `json:"commit,omitempty"`
	Class    string `json:"class"`
	KeyGlob  string `json:"key"` // exact key, or prefix when it ends in '*'
	Text     string `json:"text"`
}

type Findings struct {
	Findings []Finding `json:"findings"`
}

func (e *Env) LoadFindings() (*Findings, error) {
	b, err := os.ReadFile(filepath.Join(e.VerifDir, "known_findings.json"))
	if err != nil {
		if os.IsNotExist(err) {
			return &Findings{}, nil
		}
		return nil, err
	}
	var f Findings
	if err := json.Unmarshal(b, &f); err != nil {
		return nil, fmt.Errorf("known_findings.json: %w", err)
	}
	return &f, nil
}

// Match returns the open finding that lists this violation, if any. Fixed
// entries never match: they suppress nothing.
func (f *Findings) Match(v Violation) *Finding {
	for i := range f.Findings {
		k := &f.Findings[i]
		if k.Status != "open" || k.Property != v.Property || k.Class != v.Class {
			continue
		}
		if k.KeyGlob == v.Key || (strings.HasSuffix(k.KeyGlob, "*") && strings.HasPrefix(v.Key, strings.TrimSuffix(k.KeyGlob, "*"))) {
			return k
		}
	}
	return nil
}

// Evidence mirrors EVIDENCE.schema.json.
type Evidence struct {
	PropertyID  string         `json:"property_id"`
	Tier        string         `json:"tier"`
	Seed        int64          `json:"seed"`
	Level       string         `json:"level"`
	Coverage    map[string]any `json:"coverage"`
	Assumptions []string       `json:"assumptions"`
	WallS       float64        `json:"wall_s"`
	Violations  int            `json:"violations"`
}

func (e *Env) WriteEvidence(ev *Evidence) error {
	ev.Tier = e.Tier
	ev.Seed = int64(e.Seed)
	ev.WallS = float64(int(time.Since(e.Start).Seconds()*10)) / 10
	dir := getenv("VERIF_EVIDENCE_DIR", filepath.Join(e.VerifDir, "evidence"))
	if err := os.MkdirAll(dir, 0o755); err != nil {
		return err
	}
	b, err := json.MarshalIndent(ev, "", " ")
	if err != nil {
		return err
	}
	return os.WriteFile(filepath.Join(dir, ev.PropertyID+".json"), append(b, '\n'), 0o644)
}

// Report prints the VIOLATION / KNOWN-FINDING lines, writes replay files and
// returns the process exit status.
func (e *Env) Report(engine string, prop string, vs []Violation) (exit int, unlisted int) {
	fs, err := e.LoadFindings()
	if err != nil {
		fmt.Fprintln(os.Stderr, "error:", err)
		return 2, 0
	}
	sort.SliceStable(vs, func(i, j int) bool { return vs[i].Key < vs[j].Key })
	seenKnown := map[string]bool{}
	seenViol := map[string]bool{}
	n := 0
	for _, v := range vs {
		if seenViol[v.Class+"|"+v.Key] {
			continue
		}
		seenViol[v.Class+"|"+v.Key] = true
		if k := fs.Match(v); k != nil {
			line := fmt.Sprintf("KNOWN-FINDING: property=%s %s", prop, k.Text)
			if !seenKnown[line] {
				fmt.Println(line)
				seenKnown[line] = true
			}
			continue
		}
		n++
		if n > 20 {
			continue // enough replay files; the count is still reported
		}
		payload, _ := json.Marshal(v.Replay)
		rf := ReplayFile{Property: prop, Engine: engine, Seed: e.Seed, Tier: e.Tier, Class: v.Class, Key: v.Key, Detail: v.Detail, Payload: payload}
		b, _ := json.MarshalIndent(rf, "", " ")
		dir := getenv("VERIF_REPLAY_DIR", filepath.Join(e.VerifDir, "replays"))
		_ = os.MkdirAll(dir, 0o755)
		path := filepath.Join(dir, fmt.Sprintf("%s-%d-%d.json", prop, e.Seed, n))
		if err := os.WriteFile(path, append(b, '\n'), 0o644); err != nil {
			fmt.Fprintln(os.Stderr, "error:", err)
			return 2, n
		}
		fmt.Printf("VIOLATION property=%s replay=%s\n", prop, path)
		fmt.Printf("  class=%s key=%s\n  %s\n", v.Class, v.Key, strings.ReplaceAll(strings.TrimSpace(v.Detail), "\n", "\n  "))
	}
	if n > 0 {
		return 1, n
	}
	return 0, 0
}

func LoadReplay(path string) (*ReplayFile, error) {
	b, err := os.ReadFile(path)
	if err != nil {
		return nil, err
	}
	var rf ReplayFile
	if err := json.Unmarshal(b, &rf); err != nil {
		return nil, err
	}
	return &rf, nil
}
