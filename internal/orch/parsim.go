package orch

import (
	"bytes"
	"encoding/json"
	"fmt"
	"os"
	"path/filepath"
	"regexp"
	"sort"
	"strconv"
	"strings"
	"sync"
	"text/template"
	"time"

	"verif/internal/simrt"
	"verif/internal/weave"
	"verif/internal/workload"
)

// ---------------------------------------------------------------------
// parsim: emitted parsers under the simulator (C06, C12, C14)
// ---------------------------------------------------------------------

// mirrored from runners/parsim/parsim_test.go
type GrammarInfo struct {
	Name    string   `json:"name"`
	Kind    string   `json:"kind"`
	Base    string   `json:"base"`
	Opts    []string `json:"opts"`
	Inputs  []string `json:"inputs"`
	Text    string   `json:"text"`
	HasHost bool     `json:"has_host"`
	Entries []int    `json:"entries"`
	Heavy   bool     `json:"heavy"`
	Salt    uint64   `json:"salt"`
}

type PStep struct {
	Input        string `json:"input"`
	Entry        int    `json:"entry"`
	Exec         bool   `json:"exec"`
	AST          bool   `json:"ast"`
	Tree         bool   `json:"tree"`
	Pretty       bool   `json:"pretty,omitempty"`
	Reinit       bool   `json:"reinit,omitempty"`
	Reparse      int    `json:"reparse,omitempty"`
	GC           bool   `json:"gc,omitempty"`
	AbortPred    int    `json:"abort_pred,omitempty"`
	AbortAct     int    `json:"abort_act,omitempty"`
	AbortPredSel uint32 `json:"abort_pred_sel,omitempty"`
	AbortActSel  uint32 `json:"abort_act_sel,omitempty"`
}

type PProg struct {
	Grammar  string          `json:"grammar"`
	Cfg      simrt.InstCfg   `json:"cfg"`
	Steps    []PStep         `json:"steps"`
	Marathon json.RawMessage `json:"marathon,omitempty"`
}

type PCase struct {
	Mode          string             `json:"mode"`
	Run           int                `json:"run"`
	Grammar       string             `json:"grammar,omitempty"`
	Input         string             `json:"input,omitempty"`
	Entry         int                `json:"entry,omitempty"`
	Cfg           simrt.InstCfg      `json:"cfg"`
	FaultTape     []uint32           `json:"fault_tape,omitempty"`
	FaultCfg      simrt.MemoFaultCfg `json:"fault_cfg"`
	History       []string           `json:"history,omitempty"`
	Marathon      json.RawMessage    `json:"c06_marathon,omitempty"`
	Sweep         json.RawMessage    `json:"sweep,omitempty"`
	Giant         bool               `json:"giant,omitempty"`
	Reparse       int                `json:"reparse,omitempty"`
	Prog          *PProg             `json:"prog,omitempty"`
	Clients       []PProg            `json:"clients,omitempty"`
	SchedTape     []uint32           `json:"sched_tape,omitempty"`
	ActiveNum     int                `json:"active_num,omitempty"`
	ActiveDen     int                `json:"active_den,omitempty"`
	SiteSeed      uint64             `json:"site_seed,omitempty"`
	Budget        uint32             `json:"budget,omitempty"`
	Race          bool               `json:"race,omitempty"`
	Cold          bool               `json:"cold,omitempty"`
	FreezeClient  int                `json:"freeze_client,omitempty"`
	FreezeAt      int                `json:"freeze_at,omitempty"`
	FreezeSync    bool               `json:"freeze_sync,omitempty"`
	RunTo         int                `json:"run_to,omitempty"` // crash needing a range of cases: [Run, RunTo)
	HandoffWaiter int                `json:"handoff_waiter,omitempty"`
	HandoffHolder int                `json:"handoff_holder,omitempty"`
	HandoffAfter  int                `json:"handoff_after,omitempty"`
}

type PJob struct {
	Mode     string   `json:"mode"`
	Seed     uint64   `json:"seed"`
	From     int      `json:"from"`
	To       int      `json:"to"`
	Explicit []PCase  `json:"explicit,omitempty"`
	Workload string   `json:"workload"`
	Race     bool     `json:"race"`
	KeepLog  bool     `json:"keep_log"`
	MaxViol  int      `json:"max_viol"`
	RefSigs  bool     `json:"ref_sigs"`
	RefOnly  bool     `json:"ref_only"`
	Thorough bool     `json:"thorough"`
	Skip     []int    `json:"skip,omitempty"`
	Plain    bool     `json:"-"` // run on the unwoven runner
	Env      []string `json:"-"` // extra environment of the worker process
}

type POutcome struct {
	Class      string         `json:"class"`
	Detail     string         `json:"detail,omitempty"`
	Skipped    string         `json:"skipped,omitempty"`
	Nontrivial bool           `json:"nontrivial"`
	Sig        uint64         `json:"sig"`
	Stats      map[string]int `json:"stats,omitempty"`
	Log        []simrt.Event  `json:"log,omitempty"`
	Adjacent   []uint64       `json:"adjacent,omitempty"`
}

type PViolation struct {
	Case    PCase    `json:"case"`
	Outcome POutcome `json:"outcome"`
}

type PJobResult struct {
	Runs       int            `json:"runs"`
	Skipped    map[string]int `json:"skipped"`
	Nontrivial int            `json:"nontrivial"`
	Sigs       []uint64       `json:"sigs"`
	Stats      map[string]int `json:"stats"`
	Violations []PViolation   `json:"violations"`
	Samples    []PCase        `json:"samples"`
	Adjacent   []uint64       `json:"adjacent"`
	Outcomes   []POutcome     `json:"outcomes,omitempty"`
	GoidFast   bool           `json:"goid_fast"`
	NSites     int            `json:"nsites"`
	RefSigs    []uint64       `json:"ref_sigs,omitempty"`
}

// GrammarSpec is a grammar text before emission.
type GrammarSpec struct {
	Base    string
	Kind    string
	Text    string // contains the token zzPKG as package name
	OptSets [][]string
	Inputs  []string
	HasHost bool
	Heavy   bool
	Salt    uint64
	// FixedName: Base is already the package name (replays)
	FixedName bool
}

var optSuffix = map[string]string{"-inline": "i", "-switch": "s"}

func pkgName(base string, opts []string) string {
	n := base
	for _, o := range opts {
		n += optSuffix[o]
	}
	return n
}

var allOptSets = [][]string{{}, {"-inline"}, {"-switch"}, {"-inline", "-switch"}}

type parsimRig struct {
	env         *Env
	sc          *Scratch
	repo        string // pristine copy (+ unwoven workload, race runner)
	wrepo       string // woven workload
	peg         string
	runner      string
	raceRunner  string
	plainRunner string // unwoven, no race detector: validates the weaving
	workload    string
	infos       []GrammarInfo
	weaver      *weave.Weaver
	rejected    map[string]int
	jobSeq      int
	mu          sync.Mutex
}

var driverTmpl = template.Must(template.New("driver").Parse(`// Code generated by /verif (parsim driver). DO NOT EDIT.

package {{.Pkg}}

import (
	"fmt"
	"strings"
	"sync"

	zzrt "github.com/pointlander/peg/zzsim/simrt"
)

type zzGrammar struct{}

func init() { zzrt.RegisterGrammar("{{.Pkg}}", zzGrammar{}) }

func (zzGrammar) RuleNames() []string { return rul3s[:] }
func (zzGrammar) HasAST() bool        { return true }
func (zzGrammar) New(cfg zzrt.InstCfg, buffer string) zzrt.Instance {
	switch cfg.U {
	case 1:
		return zzNew[uint16](cfg, buffer)
	case 2:
		return zzNew[uint64](cfg, buffer)
	case 3:
		return zzNew[uint](cfg, buffer)
	case 4:
		if len(buffer) < 250 {
			return zzNew[uint8](cfg, buffer)
		}
		return zzNew[uint16](cfg, buffer)
	}
	return zzNew[uint32](cfg, buffer)
}

type zzInst[U Uint] struct {
	p *{{.Struct}}[U]
	h *zzrt.Host
}

func zzNew[U Uint](cfg zzrt.InstCfg, buffer string) zzrt.Instance {
	h := &zzrt.Host{Salt: {{.Salt}}}
	p := &{{.Struct}}[U]{Buffer: buffer{{if .HasHost}}, H: h{{end}}}
	build := func() []func(*{{.Struct}}[U]) error {
		var opts []func(*{{.Struct}}[U]) error
		if cfg.Size > 0 {
			opts = append(opts, Size[U](cfg.Size))
		}
		if cfg.NoMemo {
			opts = append(opts, DisableMemoize[U]())
		}
		if cfg.Pretty {
			opts = append(opts, Pretty[U](true))
		}
		// any order of the options must do
		for k, o := len(opts), cfg.OptOrder; k > 1; k-- {
			j := o % k
			o /= k
			opts[k-1], opts[j] = opts[j], opts[k-1]
		}
		return opts
	}
	var opts []func(*{{.Struct}}[U]) error
	if cfg.ShareOpts {
		key := fmt.Sprintf("%T|%d|%v|%v|%d", *new(U), cfg.Size, cfg.NoMemo, cfg.Pretty, cfg.OptOrder)
		// never call into the (woven) parser package while holding the real
		// mutex: a task parked inside would block the others undetectably
		zzOptMu.Lock()
		v, ok := zzOptCache[key]
		zzOptMu.Unlock()
		if !ok {
			built := build()
			zzOptMu.Lock()
			if v, ok = zzOptCache[key]; !ok {
				zzOptCache[key] = built
				v = built
			}
			zzOptMu.Unlock()
		}
		opts = v.([]func(*{{.Struct}}[U]) error)
	} else {
		opts = build()
	}
	_ = p.Init(opts...)
	return &zzInst[U]{p, h}
}

var (
	zzOptMu    sync.Mutex
	zzOptCache = map[string]any{}
)

func (i *zzInst[U]) Host() *zzrt.Host   { return i.h }

// Reinit calls Init once more on the same parser (with freshly built options).
func (i *zzInst[U]) Reinit(cfg zzrt.InstCfg) {
	var opts []func(*{{.Struct}}[U]) error
	if cfg.Size > 0 {
		opts = append(opts, Size[U](cfg.Size))
	}
	if cfg.NoMemo {
		opts = append(opts, DisableMemoize[U]())
	}
	if cfg.Pretty {
		opts = append(opts, Pretty[U](true))
	}
	_ = i.p.Init(opts...)
}
func (i *zzInst[U]) SetBuffer(s string) { i.p.Buffer = s }
func (i *zzInst[U]) Reset()             { i.p.Reset() }

func (i *zzInst[U]) Parse(rule int) (bool, zzrt.Tok, string) {
	var err error
	if rule < 0 {
		err = i.p.Parse()
	} else {
		err = i.p.Parse(rule)
	}
	if err == nil {
		return true, zzrt.Tok{}, ""
	}
	pe, ok := err.(*parseError[U])
	if !ok {
		return false, zzrt.Tok{Rule: -1}, zzErrText(err)
	}
	return false, zzrt.Tok{Rule: int(pe.maxToken.pegRule), Begin: int(pe.maxToken.begin), End: int(pe.maxToken.end)}, zzErrText(err)
}

func zzErrText(err error) (s string) {
	defer func() {
		if r := recover(); r != nil {
			if _, budget := r.(zzrt.ErrBudget); budget {
				panic(r) // the harness's own step budget, not the parser's doing
			}
			s = fmt.Sprint("panic in Error(): ", r)
		}
	}()
	return err.Error()
}

func (i *zzInst[U]) Execute() {
{{if and .HasExecute .HasHost}}	i.p.Execute()
{{end}}}

func (i *zzInst[U]) Tokens() []zzrt.Tok {
	ts := i.p.Tokens()
	out := make([]zzrt.Tok, len(ts))
	for k, t := range ts {
		out[k] = zzrt.Tok{Rule: int(t.pegRule), Begin: int(t.begin), End: int(t.end)}
	}
	return out
}

func (i *zzInst[U]) ASTString() string {
	var sb strings.Builder
	var walk func(n *node[U])
	walk = func(n *node[U]) {
		for ; n != nil; n = n.next {
			fmt.Fprintf(&sb, "(%d %d %d", int(n.pegRule), int(n.begin), int(n.end))
			if n.up != nil {
				sb.WriteByte(' ')
				walk(n.up)
			}
			sb.WriteByte(')')
		}
	}
	walk(i.p.AST())
	return sb.String()
}

func (i *zzInst[U]) TreeString() string { return i.p.SprintSyntaxTree() }

func (i *zzInst[U]) PrettyTreeString() string {
	var b strings.Builder
	if n := i.p.AST(); n != nil {
		n.PrettyPrint(&b, i.p.Buffer)
	}
	return b.String()
}

func (i *zzInst[U]) Callable() []int {
	var out []int
	for r, f := range i.p.rules {
		if f != nil && r > 1 && !strings.HasPrefix(rul3s[r], "Action") && rul3s[r] != "PegText" {
			out = append(out, r)
		}
	}
	return out
}
`))

var reInit = regexp.MustCompile(`func \(p \*(\w+)\[U\]\) Init\(`)
var rePackage = regexp.MustCompile(`(?m)^package\s+\w+`)

// emit writes one grammar package (emitted parser + driver) under
// <repo>/zzsim/w/<pkg>. It returns "" or the reason the grammar is rejected.
func (rig *parsimRig) emit(spec *GrammarSpec, opts []string) (*GrammarInfo, string) {
	pkg := pkgName(spec.Base, opts)
	if spec.FixedName {
		pkg = spec.Base
	}
	dir := filepath.Join(rig.repo, "zzsim", "w", pkg)
	if err := os.MkdirAll(dir, 0o755); err != nil {
		return nil, err.Error()
	}
	text := strings.ReplaceAll(spec.Text, "zzPKG", pkg)
	if spec.Kind == "shipped" {
		text = rePackage.ReplaceAllString(text, "package "+pkg)
	}
	pegFile := filepath.Join(dir, pkg+".peg")
	if err := os.WriteFile(pegFile, []byte(text), 0o644); err != nil {
		return nil, err.Error()
	}
	args := append(append([]string{}, opts...), "-output", pkg+".peg.go", pkg+".peg")
	_, se, exit, err := RunCmd(120*time.Second, dir, os.Environ(), nil, rig.peg, args...)
	if err != nil || exit != 0 {
		os.RemoveAll(dir)
		return nil, fmt.Sprintf("peg failed (exit %d): %s", exit, lastLine(string(se)))
	}
	src, err := os.ReadFile(filepath.Join(dir, pkg+".peg.go"))
	if err != nil {
		os.RemoveAll(dir)
		return nil, err.Error()
	}
	m := reInit.FindSubmatch(src)
	if m == nil {
		os.RemoveAll(dir)
		return nil, "emitted file has no Init method"
	}
	data := map[string]any{
		"Pkg": pkg, "Struct": string(m[1]), "HasHost": spec.HasHost, "Salt": strconv.FormatUint(spec.Salt, 10),
		"HasExecute": bytes.Contains(src, []byte("[_]) Execute()")),
	}
	var drv bytes.Buffer
	if err := driverTmpl.Execute(&drv, data); err != nil {
		return nil, err.Error()
	}
	if err := os.WriteFile(filepath.Join(dir, "zzdriver.go"), drv.Bytes(), 0o644); err != nil {
		return nil, err.Error()
	}
	os.Remove(pegFile)
	return &GrammarInfo{Name: pkg, Kind: spec.Kind, Base: spec.Base, Opts: opts, Inputs: spec.Inputs, Text: text, HasHost: spec.HasHost, Heavy: spec.Heavy, Salt: spec.Salt}, ""
}

var reFailPkg = regexp.MustCompile(`(?m)^# github\.com/pointlander/peg/zzsim/w/(\w+)`)

// buildParsim prepares scratch copies, emits and weaves the workload and
// builds the runner(s).
func buildParsim(e *Env, sc *Scratch, specs []GrammarSpec, wantRace bool, wantWoven bool) (*parsimRig, error) {
	return buildParsimOpt(e, sc, specs, wantRace, wantWoven, false)
}

func buildParsimOpt(e *Env, sc *Scratch, specs []GrammarSpec, wantRace bool, wantWoven bool, stmtYields bool) (*parsimRig, error) {
	rig := &parsimRig{env: e, sc: sc, repo: sc.Path("repo"), wrepo: sc.Path("wrepo"), peg: sc.Path("peg"),
		runner: sc.Path("parsim.test"), raceRunner: sc.Path("parsim-race.test"), workload: sc.Path("workload.json"), rejected: map[string]int{}}
	if err := CopyTree(e.RepoDir, rig.repo); err != nil {
		return nil, infra("copy %s: %v", e.RepoDir, err)
	}
	if err := e.BuildPeg(rig.repo, rig.peg, false); err != nil {
		return nil, err
	}
	if err := e.CopySimrt(rig.repo, 0); err != nil {
		return nil, infra("simrt: %v", err)
	}
	// emit
	type job struct {
		spec *GrammarSpec
		opts []string
	}
	var jobs []job
	for i := range specs {
		for _, o := range specs[i].OptSets {
			jobs = append(jobs, job{&specs[i], o})
		}
	}
	infos := make([]*GrammarInfo, len(jobs))
	var rmu sync.Mutex
	_ = ParallelDo(len(jobs), e.Jobs, func(i int) error {
		gi, why := rig.emit(jobs[i].spec, jobs[i].opts)
		if why != "" {
			rmu.Lock()
			rig.rejected["peg: "+clipStr(why, 80)]++
			rmu.Unlock()
			return nil
		}
		infos[i] = gi
		return nil
	})
	// compile the emitted packages; drop the ones the compiler rejects (that is
	// C08's business, never reported under the properties claimed here)
	for round := 0; round < 6; round++ {
		o, err := e.Go(rig.repo, e.GoEnv(), "build", "-trimpath", "./zzsim/w/...")
		if err == nil {
			break
		}
		ms := reFailPkg.FindAllStringSubmatch(o, -1)
		if len(ms) == 0 {
			return nil, infra("workload does not build: %v\n%s", err, clipStr(o, 3000))
		}
		for _, m := range ms {
			os.RemoveAll(filepath.Join(rig.repo, "zzsim", "w", m[1]))
			for i, gi := range infos {
				if gi != nil && gi.Name == m[1] {
					infos[i] = nil
					rig.rejected["go build rejects the emitted parser"]++
				}
			}
		}
	}
	var imports strings.Builder
	imports.WriteString("//go:build zzsim\n\npackage parsim\n\nimport (\n")
	for _, gi := range infos {
		if gi != nil {
			rig.infos = append(rig.infos, *gi)
			fmt.Fprintf(&imports, "\t_ %q\n", "github.com/pointlander/peg/zzsim/w/"+gi.Name)
		}
	}
	imports.WriteString(")\n")
	if len(rig.infos) == 0 {
		return nil, infra("no workload grammar survived emission and compilation: %v", rig.rejected)
	}
	wb, _ := json.Marshal(rig.infos)
	if err := os.WriteFile(rig.workload, wb, 0o644); err != nil {
		return nil, err
	}
	if err := e.CopyRunner(rig.repo, "parsim"); err != nil {
		return nil, infra("runner: %v", err)
	}
	if err := os.WriteFile(filepath.Join(rig.repo, "zzsim", "parsim", "zzimports_test.go"), []byte(imports.String()), 0o644); err != nil {
		return nil, err
	}
	var berr error
	var wg sync.WaitGroup
	if wantWoven {
		// woven copy
		if err := CopyTree(rig.repo, rig.wrepo); err != nil {
			return nil, infra("copy: %v", err)
		}
		rig.weaver = &weave.Weaver{ModuleDir: rig.wrepo}
		for _, gi := range rig.infos {
			dir := filepath.Join(rig.wrepo, "zzsim", "w", gi.Name)
			if err := rig.weaver.WeaveFiles(dir, "zzsim/w/"+gi.Name, []string{gi.Name + ".peg.go"},
				weave.Options{Yields: true, StmtYields: stmtYields && !gi.Heavy, MemoFaults: true, SyncTypes: true, MapRanges: !gi.Heavy}); err != nil {
				return nil, infra("weave %s: %v", gi.Name, err)
			}
		}
		if err := e.CopySimrt(rig.wrepo, len(rig.weaver.Sites)); err != nil {
			return nil, infra("simrt: %v", err)
		}
		_ = WriteSites(sc.Path("sites.json"), rig.weaver)
		wg.Go(func() {
			if o, err := e.Go(rig.wrepo, e.GoEnv(), "test", "-c", "-trimpath", "-tags", "zzsim", "-o", rig.runner, "./zzsim/parsim"); err != nil {
				berr = infra("building the woven runner failed: %v\n%s", err, clipStr(o, 4000))
			}
		})
	}
	if wantWoven {
		rig.plainRunner = sc.Path("parsim-plain.test")
		wg.Go(func() {
			if o, err := e.Go(rig.repo, e.GoEnv(), "test", "-c", "-trimpath", "-tags", "zzsim", "-o", rig.plainRunner, "./zzsim/parsim"); err != nil {
				berr = infra("building the unwoven runner failed: %v\n%s", err, clipStr(o, 4000))
			}
		})
	}
	if wantRace {
		wg.Go(func() {
			if o, err := e.Go(rig.repo, e.GoEnvRace(), "test", "-c", "-trimpath", "-race", "-tags", "zzsim", "-o", rig.raceRunner, "./zzsim/parsim"); err != nil {
				berr = infra("building the -race runner failed: %v\n%s", err, clipStr(o, 4000))
			}
		})
	}
	wg.Wait()
	if berr != nil {
		return nil, berr
	}
	if rig.weaver != nil && rig.weaver.Stats.TypeCheckError != "" {
		e.Logf("weaver type check: %s", rig.weaver.Stats.TypeCheckError)
	}
	e.Logf("parsim workload: %d parsers (%d rejected), woven sites %d", len(rig.infos), len(jobs)-len(rig.infos), func() int {
		if rig.weaver != nil {
			return len(rig.weaver.Sites)
		}
		return 0
	}())
	return rig, nil
}

// runJob executes one job in a worker process.
func (rig *parsimRig) runJob(job *PJob, race bool, timeout time.Duration) (*PJobResult, error) {
	rig.mu.Lock()
	rig.jobSeq++
	n := rig.jobSeq
	rig.mu.Unlock()
	job.Workload = rig.workload
	job.Thorough = rig.env.Tier == "thorough"
	jp := rig.sc.Path(fmt.Sprintf("job-%d.json", n))
	op := rig.sc.Path(fmt.Sprintf("out-%d.json", n))
	b, _ := json.Marshal(job)
	if err := os.WriteFile(jp, b, 0o644); err != nil {
		return nil, err
	}
	defer os.Remove(jp)
	defer os.Remove(op)
	defer os.Remove(op + ".at")
	bin := rig.runner
	if job.Plain {
		bin = rig.plainRunner
	}
	env := append(os.Environ(), "VERIF_JOB="+jp, "VERIF_OUT="+op)
	env = append(env, job.Env...)
	if race {
		bin = rig.raceRunner
		env = append(env, "GORACE=halt_on_error=0 exitcode=66")
	}
	so, se, exit, err := RunCmd(timeout, rig.sc.Dir, env, nil, bin, "-test.run", "^TestSim$", "-test.timeout", "0", "-test.count", "1")
	if err != nil {
		return nil, infra("worker: %v\n%s", err, clipStr(string(se)+string(so), 3000))
	}
	if i := bytes.Index(se, []byte("VERIF-INFRA:")); i >= 0 {
		return nil, infra("worker: %s", firstLine(string(se[i:])))
	}
	out, rerr := os.ReadFile(op)
	if race && (exit == 66 || bytes.Contains(se, []byte("WARNING: DATA RACE")) || bytes.Contains(so, []byte("WARNING: DATA RACE"))) {
		res := &PJobResult{Skipped: map[string]int{}, Stats: map[string]int{}}
		if rerr == nil {
			_ = json.Unmarshal(out, res)
		}
		txt := string(se) + string(so)
		res.Violations = append(res.Violations, PViolation{Case: PCase{Mode: job.Mode, Race: true, Run: job.From},
			Outcome: POutcome{Class: "data_race", Detail: raceReport(txt)}})
		return res, nil
	}
	if exit != 0 || rerr != nil {
		at := -1
		if b, err := os.ReadFile(op + ".at"); err == nil {
			if n, err := strconv.Atoi(strings.TrimSpace(string(b))); err == nil {
				at = n
			}
		}
		return nil, workerCrash{fmt.Sprintf("worker exit %d (%v)\n%s", exit, rerr, clipStr(string(se)+string(so), 6000)), at}
	}
	var res PJobResult
	if err := json.Unmarshal(out, &res); err != nil {
		return nil, infra("worker answer: %v", err)
	}
	return &res, nil
}

type workerCrash struct {
	msg string
	at  int // the case the worker was on (-1: unknown)
}

func (w workerCrash) Error() string { return w.msg }

func raceReport(txt string) string {
	i := strings.Index(txt, "WARNING: DATA RACE")
	if i < 0 {
		return clipStr(txt, 2000)
	}
	j := strings.Index(txt[i:], "==================\n")
	if j < 0 {
		return clipStr(txt[i:], 3000)
	}
	return clipStr(txt[i:i+j], 3000)
}

// raceKey reduces a race report to the two source locations involved.
var reRaceLoc = regexp.MustCompile(`(?m)^\s+(\S+\.go):(\d+)`)

func raceKey(report string) string {
	ms := reRaceLoc.FindAllStringSubmatch(report, -1)
	var locs []string
	for _, m := range ms {
		f := m[1]
		if strings.Contains(f, "/zzsim/parsim/") || strings.Contains(f, "/zzsim/gensim/") || strings.Contains(f, "/src/") {
			continue
		}
		if i := strings.Index(f, "/zzsim/"); i >= 0 {
			f = f[i+1:]
		} else {
			f = filepath.Base(f)
		}
		locs = append(locs, f+":"+m[2])
		if len(locs) == 2 {
			break
		}
	}
	return strings.Join(locs, "|")
}

type parsimAgg struct {
	Runs       int
	Nontrivial int
	Skipped    map[string]int
	Stats      map[string]int
	Sigs       map[uint64]bool
	Adjacent   map[uint64]bool
	Viol       []PViolation
	Samples    []PCase
	GoidFast   bool
	NSites     int
}

func newAgg() *parsimAgg {
	return &parsimAgg{Skipped: map[string]int{}, Stats: map[string]int{}, Sigs: map[uint64]bool{}, Adjacent: map[uint64]bool{}}
}

func (a *parsimAgg) add(r *PJobResult) {
	a.Runs += r.Runs
	a.Nontrivial += r.Nontrivial
	for k, v := range r.Skipped {
		a.Skipped[k] += v
	}
	for k, v := range r.Stats {
		a.Stats[k] += v
	}
	for _, s := range r.Sigs {
		a.Sigs[s] = true
	}
	for _, s := range r.Adjacent {
		a.Adjacent[s] = true
	}
	a.Viol = append(a.Viol, r.Violations...)
	if len(a.Samples) < 4 {
		a.Samples = append(a.Samples, r.Samples...)
	}
	a.GoidFast = a.GoidFast || r.GoidFast
	if r.NSites > a.NSites {
		a.NSites = r.NSites
	}
}

func (a *parsimAgg) merge(b *parsimAgg) {
	a.Runs += b.Runs
	a.Nontrivial += b.Nontrivial
	for k, v := range b.Skipped {
		a.Skipped[k] += v
	}
	for k, v := range b.Stats {
		a.Stats[k] += v
	}
	for k := range b.Sigs {
		a.Sigs[k] = true
	}
	for k := range b.Adjacent {
		a.Adjacent[k] = true
	}
	a.Viol = append(a.Viol, b.Viol...)
}

// sweep runs cases [0,total) of a mode across worker processes.
func (rig *parsimRig) sweep(mode string, seed uint64, total int, race bool, chunk int, timeout time.Duration) (*parsimAgg, error) {
	return rig.sweepRange(mode, seed, 0, total, race, chunk, timeout)
}

func (rig *parsimRig) sweepRange(mode string, seed uint64, lo, total int, race bool, chunk int, timeout time.Duration) (*parsimAgg, error) {
	agg := newAgg()
	var mu sync.Mutex
	if chunk < 1 {
		chunk = 1
	}
	nchunks := (total - lo + chunk - 1) / chunk
	err := ParallelDo(nchunks, rig.env.Jobs, func(i int) error {
		from, to := lo+i*chunk, min(total, lo+(i+1)*chunk)
		res, err := rig.runJob(&PJob{Mode: mode, Seed: seed, From: from, To: to, Race: race, MaxViol: 3}, race, timeout)
		if err != nil {
			if wc, ok := err.(workerCrash); ok {
				// find the crashing case by bisection into single cases
				v, ierr := rig.isolateCrash(mode, seed, from, to, race, wc, timeout)
				if ierr != nil {
					return ierr
				}
				mu.Lock()
				if v != nil {
					agg.Viol = append(agg.Viol, *v)
				} else {
					agg.Skipped["the reference itself kills the runner (resource limit)"]++
				}
				mu.Unlock()
				return nil
			}
			return err
		}
		mu.Lock()
		agg.add(res)
		mu.Unlock()
		return nil
	})
	return agg, err
}

// isolateCrash: a worker that dies (fatal error, unrecovered panic in a
// goroutine of the code under test) is re-run case by case; a case that
// crashes again is a violation of class "crash", otherwise the crash is an
// infrastructure problem.
func (rig *parsimRig) isolateCrash(mode string, seed uint64, from, to int, race bool, wc workerCrash, timeout time.Duration) (*PViolation, error) {
	// the case the worker was on first, then (the crash may need what came
	// before it in the process) a bounded number of the others
	order := make([]int, 0, to-from)
	if wc.at >= from && wc.at < to {
		order = append(order, wc.at)
	}
	for i := from; i < to && len(order) < 120; i++ {
		if i != wc.at {
			order = append(order, i)
		}
	}
	for _, i := range order {
		_, err := rig.runJob(&PJob{Mode: mode, Seed: seed, From: i, To: i + 1, Race: race}, race, timeout)
		if err == nil {
			continue
		}
		if w2, ok := err.(workerCrash); ok {
			// If computing the reference observations of this case alone
			// already kills the runner (memory watchdog on a huge
			// un-memoised parse, …) the case has no reference: inconclusive,
			// not a violation.
			if !race {
				if _, rerr := rig.runJob(&PJob{Mode: mode, Seed: seed, From: i, To: i + 1, RefSigs: true, RefOnly: true}, false, timeout); rerr != nil {
					if _, isCrash := rerr.(workerCrash); isCrash {
						return nil, nil
					}
				}
			}
			return &PViolation{Case: PCase{Mode: mode, Run: i, Race: race}, Outcome: POutcome{Class: "crash", Detail: "the runner process died on this case:\n" + clipStr(w2.msg, 2500)}}, nil
		}
		return nil, err
	}
	// no case does it alone: does the range up to the case the worker was on
	// do it again?
	if wc.at >= from && wc.at < to {
		if _, err := rig.runJob(&PJob{Mode: mode, Seed: seed, From: from, To: wc.at + 1, Race: race}, race, timeout); err != nil {
			if w2, ok := err.(workerCrash); ok {
				return &PViolation{Case: PCase{Mode: mode, Run: from, RunTo: wc.at + 1, Race: race}, Outcome: POutcome{Class: "crash",
					Detail: fmt.Sprintf("the runner process dies on case %d when cases %d to %d ran before it in the same process, not when it runs alone:\n%s", wc.at, from, wc.at-1, clipStr(w2.msg, 2500))}}, nil
			}
		}
	}
	return nil, infra("worker crashed but neither a single case nor the same range reproduces it:\n%s", clipStr(wc.msg, 3000))
}

// ---------- workload specs ----------

func (e *Env) loadCorpus() ([]GrammarSpec, error) {
	dir := filepath.Join(e.VerifDir, "corpus")
	ents, err := os.ReadDir(dir)
	if err != nil {
		return nil, err
	}
	var out []GrammarSpec
	for _, en := range ents {
		n := en.Name()
		if !strings.HasSuffix(n, ".peg") {
			continue
		}
		base := strings.TrimSuffix(n, ".peg")
		text, err := os.ReadFile(filepath.Join(dir, n))
		if err != nil {
			return nil, err
		}
		var inputs []string
		if b, err := os.ReadFile(filepath.Join(dir, base+".inputs")); err == nil {
			for _, l := range strings.Split(strings.TrimSuffix(string(b), "\n"), "\n") {
				if strings.HasPrefix(l, `"`) {
					if u, err := strconv.Unquote(l); err == nil {
						l = u
					}
				}
				inputs = append(inputs, l)
			}
		}
		// deeply nested inputs for the recursive corpus grammars (syntax trees
		// hundreds of levels deep: printers, AST builder, recursion depth)
		switch base {
		case "deep":
			for _, n := range []int{70, 130, 260, 520} {
				inputs = append(inputs, strings.Repeat("(", n)+"x"+strings.Repeat(")", n), strings.Repeat("[", n)+"x"+strings.Repeat("]", n))
			}
		case "arith":
			for _, n := range []int{70, 130, 260} {
				inputs = append(inputs, strings.Repeat("(", n)+"1"+strings.Repeat(")", n))
			}
		}
		out = append(out, GrammarSpec{Base: "f" + base, Kind: "fixed", Text: string(text), OptSets: allOptSets, Inputs: inputs, HasHost: true,
			Salt: simrt.Derive(7, base)})
	}
	// more rule numbers than a uint8 can hold (on trees whose emitted code
	// for such grammars does not compile it is rejected and counted)
	{
		var sb strings.Builder
		sb.WriteString("package zzPKG\n\nimport \"github.com/pointlander/peg/zzsim/simrt\"\n\ntype G Peg {\n\tH *simrt.Host\n}\n\nS <- (A 'x' / Z 'y' / M 'z' / Fill)+ !.\nA <- 'a' <'b'?> { p.H.Act(1, text, begin, end) }\n")
		// 255 fillers put Z exactly 256 rule numbers after A (and M after F0)
		for i := 0; i < 255; i++ {
			fmt.Fprintf(&sb, "F%d <- 'f' F%d / 'g'\n", i, (i+1)%255)
		}
		sb.WriteString("Z <- 'a' 'a' / 'a' 'b' 'c'\nM <- 'a' 'b' 'b'\nFill <- 'f' F0\n")
		out = append(out, GrammarSpec{Base: "fmany", Kind: "fixed", Text: sb.String(), OptSets: [][]string{{}, {"-inline", "-switch"}},
			Inputs: []string{"ax", "aay", "abx", "abcy", "abbz", "fg", "ffg", "axaay", "aayax", "abbzabcy", "ay", "", "ffffg", "abz"}, HasHost: true, Salt: simrt.Derive(7, "many")})
	}
	sort.Slice(out, func(i, j int) bool { return out[i].Base < out[j].Base })
	return out, nil
}

// mutateInputs adds seeded mutations (delete / duplicate / replace / swap of
// runes taken from the pool itself) to an input pool.
func mutateInputs(r *simrt.SplitMix64, pool []string, extra, maxRunes int) []string {
	seen := map[string]bool{}
	var out []string
	var alpha []rune
	for _, s := range pool {
		if !seen[s] {
			seen[s] = true
			out = append(out, s)
		}
		for _, c := range s {
			alpha = append(alpha, c)
		}
	}
	if len(alpha) == 0 {
		return out
	}
	for tries := 0; tries < extra*4 && len(out) < len(pool)+extra; tries++ {
		rs := []rune(pool[r.Intn(len(pool))])
		for range 1 + r.Intn(2) {
			c := alpha[r.Intn(len(alpha))]
			switch {
			case len(rs) == 0 || r.Chance(1, 3):
				p := r.Intn(len(rs) + 1)
				rs = append(rs[:p], append([]rune{c}, rs[p:]...)...)
			case r.Chance(1, 2):
				p := r.Intn(len(rs))
				rs = append(rs[:p], rs[p+1:]...)
			default:
				rs[r.Intn(len(rs))] = c
			}
		}
		if maxRunes > 0 && len(rs) > maxRunes {
			rs = rs[:maxRunes]
		}
		s := string(rs)
		if !seen[s] {
			seen[s] = true
			out = append(out, s)
		}
	}
	return out
}

func (e *Env) shippedSpecs(r *simrt.SplitMix64, thorough bool) []GrammarSpec {
	var out []GrammarSpec
	read := func(rel string) string {
		b, _ := os.ReadFile(filepath.Join(e.RepoDir, rel))
		return string(b)
	}
	cut := func(s string, r *simrt.SplitMix64, n int) []string {
		var o []string
		for range n {
			if len(s) > 2 {
				o = append(o, s[:r.Intn(len(s))])
			}
		}
		return o
	}
	// the self-hosted front end grammar on the repository's own grammars
	if t := read("peg.peg"); t != "" {
		var in []string
		for _, f := range []string{"peg.peg", "grammars/longtest/long.peg", "grammars/calculator/calculator.peg", "grammars/fexl/fexl.peg",
			"cmd/peg-bootstrap/bootstrap.peg", "cmd/peg-bootstrap/peg.bootstrap.peg"} {
			if s := read(f); s != "" {
				in = append(in, s)
				in = append(in, cut(s, r, 2)...)
			}
		}
		if thorough {
			in = append(in, read("grammars/c/c.peg"), read("grammars/java/java_1_7.peg"))
		}
		out = append(out, GrammarSpec{Base: "speg", Kind: "shipped", Text: t, OptSets: [][]string{{}, {"-inline", "-switch"}}, Inputs: in, Heavy: true})
	}
	if t := read("grammars/longtest/long.peg"); t != "" {
		in := []string{`""`, `"X"`, `"` + strings.Repeat("X", 300) + `"`, `"abc`, `abc"`, `"a"b"`, ``, `"` + strings.Repeat("é", 40) + `"`}
		out = append(out, GrammarSpec{Base: "slong", Kind: "shipped", Text: t, OptSets: allOptSets, Inputs: in})
	}
	if t := read("grammars/fexl/fexl.peg"); t != "" {
		var in []string
		for _, f := range []string{"grammars/fexl/doc/try.fxl"} {
			if s := read(f); s != "" {
				in = append(in, s)
				in = append(in, cut(s, r, 3)...)
				lines := strings.Split(s, "\n")
				for k := 0; k+6 < len(lines) && len(in) < 40; k += 29 {
					in = append(in, strings.Join(lines[k:k+6], "\n")+"\n")
				}
			}
		}
		in = append(in, `\x=1 x`, `\f=(\x x) f f`, `"str" ~@ complex @`, `# comment`+"\n"+`say "hi"`, `(`, `\\ rest of input`)
		out = append(out, GrammarSpec{Base: "sfexl", Kind: "shipped", Text: t, OptSets: [][]string{{}, {"-inline", "-switch"}}, Inputs: in, Heavy: true})
	}
	if thorough {
		if t := read("grammars/c/c.peg"); t != "" {
			in := []string{"int main() { return 0; }\n", "int f(int a, int b) { if (a > b) return a; else return b; }\n",
				"typedef struct s { int x; char *p; } s_t;\nstatic s_t v = { 1, \"x\" };\n", "int main( { }", "void g(void) { for (;;) { x++; } }\n", "int a[3] = {1,2,3};", ""}
			out = append(out, GrammarSpec{Base: "sc", Kind: "shipped", Text: t, OptSets: [][]string{{"-inline", "-switch"}}, Inputs: in, Heavy: true})
		}
		if t := read("grammars/java/java_1_7.peg"); t != "" {
			var in []string
			for _, f := range []string{"grammars/java/example-1.java", "grammars/java/example-2.java"} {
				if s := read(f); s != "" {
					in = append(in, s)
					in = append(in, cut(s, r, 2)...)
				}
			}
			in = append(in, "class A { int x = 1; }", "class A { void f() { return; } ", "")
			out = append(out, GrammarSpec{Base: "sjava", Kind: "shipped", Text: t, OptSets: [][]string{{"-inline", "-switch"}}, Inputs: in, Heavy: true})
		}
	}
	return out
}

// longInputs builds a few inputs of several thousand runes by repeating pool
// members (offsets beyond 255 and 4 096, many memo entries, token buffers far
// beyond every Size knob); the step budget skips the ones a grammar cannot
// handle without memoisation.
func longInputs(r *simrt.SplitMix64, pool []string) []string {
	var out []string
	for _, target := range []int{300, 2500, 9000} {
		if len(pool) == 0 {
			break
		}
		base := pool[r.Intn(len(pool))]
		for tries := 0; len([]rune(base)) == 0 && tries < 8; tries++ {
			base = pool[r.Intn(len(pool))]
		}
		n := len([]rune(base))
		if n == 0 {
			continue
		}
		s := strings.Repeat(base, target/n+1)
		if r.Chance(1, 2) {
			s += pool[r.Intn(len(pool))]
		}
		out = append(out, s)
	}
	return out
}

// parsimSpecs assembles the workload of a tier.
func (e *Env) parsimSpecs(nGenerated, inputsPer int, optsPerGenerated int, shipped bool) ([]GrammarSpec, error) {
	specs, err := e.loadCorpus()
	if err != nil {
		return nil, infra("corpus: %v", err)
	}
	r := simrt.NewRNG(simrt.Derive(e.Seed, "workload"))
	for i := range specs {
		specs[i].Inputs = mutateInputs(r, specs[i].Inputs, inputsPer, 40)
		specs[i].Inputs = append(specs[i].Inputs, longInputs(r, specs[i].Inputs)...)
	}
	for i := 0; i < nGenerated; i++ {
		base := fmt.Sprintf("g%d", i)
		g := workload.Generate(simrt.DeriveN(e.Seed, "grammar", i), "zzPKG")
		sets := allOptSets
		if optsPerGenerated < 4 {
			sets = [][]string{allOptSets[r.Intn(4)]}
			if optsPerGenerated >= 2 {
				sets = append(sets, allOptSets[r.Intn(4)])
				if fmt.Sprint(sets[0]) == fmt.Sprint(sets[1]) {
					sets = sets[:1]
				}
			}
		}
		in := g.Inputs(simrt.DeriveN(e.Seed, "inputs", i), inputsPer, 32)
		in = append(in, longInputs(r, in)...)
		specs = append(specs, GrammarSpec{Base: base, Kind: "generated", Text: g.Text(), OptSets: sets,
			Inputs: in, HasHost: true, Salt: g.Salt})
	}
	if shipped {
		specs = append(specs, e.shippedSpecs(r, e.Tier == "thorough")...)
	}
	return specs, nil
}

var reStamp = regexp.MustCompile(`^\d{4}/\d\d/\d\d \d\d:\d\d:\d\d `)

func lastLine(s string) string {
	s = strings.TrimSpace(s)
	if i := strings.LastIndexByte(s, '\n'); i >= 0 {
		s = s[i+1:]
	}
	return reStamp.ReplaceAllString(s, "")
}
