package simrt

import (
	"fmt"
	"strings"
)

// Host is the callback surface of workload grammars: semantic predicates
// call Pred, actions call Act. Predicates are a pure function of
// (salt, id, position), so they are memoisation-safe. The simulator can arm
// an abort (panic) at the n-th callback of an operation: that is how a parse
// or an Execute is "cut short at an arbitrary instant" (C12).
type Host struct {
	Salt      uint64
	Trace     []string
	PredCalls int
	ActCalls  int
	AbortPred int // panic at the AbortPred-th Pred call (1-based; 0 = never)
	AbortAct  int
}

// Abort is the panic value of an injected abort.
type Abort struct{ What string }

func (h *Host) ResetOp() {
	h.Trace = h.Trace[:0]
	h.PredCalls, h.ActCalls, h.AbortPred, h.AbortAct = 0, 0, 0, 0
}

func (h *Host) Pred(id int, pos int) bool {
	h.PredCalls++
	if h.AbortPred != 0 && h.PredCalls == h.AbortPred {
		panic(Abort{"pred"})
	}
	x := NewRNG(h.Salt ^ uint64(id)*0x9e3779b97f4a7c15 ^ uint64(pos)*0xc2b2ae3d27d4eb4f).Uint64()
	return x%4 != 0
}

func (h *Host) Act(id int, text string, begin, end int) {
	h.ActCalls++
	if h.AbortAct != 0 && h.ActCalls == h.AbortAct {
		panic(Abort{"act"})
	}
	h.Trace = append(h.Trace, fmt.Sprintf("%d:%q[%d,%d]", id, text, begin, end))
}

func (h *Host) TraceString() string { return strings.Join(h.Trace, " ") }

// Tok is a token of an emitted parser in driver-neutral form.
type Tok struct{ Rule, Begin, End int }

// InstCfg are the knobs of one parser instance.
type InstCfg struct {
	U      int  // 0 uint32, 1 uint16, 2 uint64, 3 uint
	Size   int  // 0 = option not given
	NoMemo bool // DisableMemoize
	Pretty bool
	// ShareOpts: the option values passed to Init are built once per
	// (grammar, U, knobs) and reused for every instance with the same knobs,
	// as a program that keeps one options slice for all its parsers does.
	ShareOpts bool
	// OptOrder permutes the order in which the options are passed to Init.
	OptOrder int
}

// Instance is the uniform face the generated driver.go gives every emitted
// parser.
type Instance interface {
	SetBuffer(s string)
	Reset()
	Parse(rule int) (ok bool, errTok Tok, errMsg string) // rule<0: default entry
	Execute()
	Tokens() []Tok
	ASTString() string
	TreeString() string
	Host() *Host
}

// Grammar is one emitted parser package.
type Grammar interface {
	// New constructs p := &T[U]{Buffer: buffer, H: host}; p.Init(options…).
	New(cfg InstCfg, buffer string) Instance
	RuleNames() []string
	HasAST() bool
}

var grammars = map[string]Grammar{}

func RegisterGrammar(name string, g Grammar) { grammars[name] = g }
func LookupGrammar(name string) Grammar      { return grammars[name] }
func GrammarNames() []string {
	var out []string
	for k := range grammars {
		out = append(out, k)
	}
	return out
}
