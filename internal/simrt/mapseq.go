package simrt

import (
	"cmp"
	"fmt"
	"iter"
	"reflect"
	"slices"
	"sync/atomic"
)

// Map iteration order is one of the sources of nondeterminism the simulator
// owns: the weaver turns `range m` (m of map type) into `range MapSeq(m)`.
// With a map seed set, keys are put in a canonical order and then permuted
// by a stream derived from the seed (per task in scheduled runs), so the
// order is replayable and varies between runs. Keys with no canonical order
// (pointers, interfaces…) fall back to the runtime's order and are counted.

var (
	globalMapSeed   atomic.Uint64
	mapCalls        atomic.Uint64
	MapRanges       atomic.Uint64 // ranges executed under control
	MapUncontrolled atomic.Uint64 // ranges whose key type has no canonical order
)

// SetMapSeed sets the permutation seed for unscheduled runs (0 = runtime order).
func SetMapSeed(s uint64) { globalMapSeed.Store(s); mapCalls.Store(0) }

func canonical[K comparable](keys []K) bool {
	if len(keys) == 0 {
		return true
	}
	switch reflect.TypeOf(keys[0]).Kind() {
	case reflect.String:
		slices.SortFunc(keys, func(a, b K) int {
			return cmp.Compare(reflect.ValueOf(a).String(), reflect.ValueOf(b).String())
		})
	case reflect.Int, reflect.Int8, reflect.Int16, reflect.Int32, reflect.Int64:
		slices.SortFunc(keys, func(a, b K) int { return cmp.Compare(reflect.ValueOf(a).Int(), reflect.ValueOf(b).Int()) })
	case reflect.Uint, reflect.Uint8, reflect.Uint16, reflect.Uint32, reflect.Uint64, reflect.Uintptr:
		slices.SortFunc(keys, func(a, b K) int { return cmp.Compare(reflect.ValueOf(a).Uint(), reflect.ValueOf(b).Uint()) })
	case reflect.Bool, reflect.Float32, reflect.Float64, reflect.Struct, reflect.Array:
		for _, k := range keys {
			if !printable(reflect.ValueOf(k)) {
				return false
			}
		}
		slices.SortFunc(keys, func(a, b K) int { return cmp.Compare(fmt.Sprintf("%#v", a), fmt.Sprintf("%#v", b)) })
	default:
		return false
	}
	return true
}

func printable(v reflect.Value) bool {
	switch v.Kind() {
	case reflect.Pointer, reflect.UnsafePointer, reflect.Chan, reflect.Func, reflect.Interface, reflect.Map, reflect.Slice:
		return false
	case reflect.Struct:
		for i := range v.NumField() {
			if !printable(v.Field(i)) {
				return false
			}
		}
	case reflect.Array:
		for i := range v.Len() {
			if !printable(v.Index(i)) {
				return false
			}
		}
	}
	return true
}

func MapSeq[M ~map[K]V, K comparable, V any](m M) iter.Seq2[K, V] {
	return func(yield func(K, V) bool) {
		var rng *SplitMix64
		if t := currentTask(); t != nil {
			if s := cur.Load(); s != nil && s.cfg.MapSeed != 0 {
				rng = t.rng
			}
		} else if seed := globalMapSeed.Load(); seed != 0 {
			rng = NewRNG(DeriveN(seed, "map", int(mapCalls.Add(1))))
		}
		if rng == nil {
			for k, v := range m {
				if !yield(k, v) {
					return
				}
			}
			return
		}
		keys := make([]K, 0, len(m))
		for k := range m {
			keys = append(keys, k)
		}
		if !canonical(keys) {
			MapUncontrolled.Add(1)
			for _, k := range keys {
				if v, ok := m[k]; ok {
					if !yield(k, v) {
						return
					}
				}
			}
			return
		}
		MapRanges.Add(1)
		for i := len(keys) - 1; i > 0; i-- {
			j := rng.Intn(i + 1)
			keys[i], keys[j] = keys[j], keys[i]
		}
		for _, k := range keys {
			// like the runtime: an entry deleted during iteration is not produced
			if v, ok := m[k]; ok {
				if !yield(k, v) {
					return
				}
			}
		}
	}
}

// MapKeys, MapValues and MapAll replace maps.Keys, maps.Values and maps.All
// in woven code: same sequences, in the simulator's controlled order.
func MapKeys[M ~map[K]V, K comparable, V any](m M) iter.Seq[K] {
	return func(yield func(K) bool) {
		for k := range MapSeq(m) {
			if !yield(k) {
				return
			}
		}
	}
}

func MapValues[M ~map[K]V, K comparable, V any](m M) iter.Seq[V] {
	return func(yield func(V) bool) {
		for _, v := range MapSeq(m) {
			if !yield(v) {
				return
			}
		}
	}
}

func MapAll[M ~map[K]V, K comparable, V any](m M) iter.Seq2[K, V] { return MapSeq(m) }
