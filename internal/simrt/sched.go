package simrt

import (
	"fmt"
	"os"
	"runtime"
	"slices"
	"sort"
	"strings"
	"sync"
	"sync/atomic"
	"testing/synctest"
	"time"
)

// NSites is the number of woven yield sites in this build (set by the
// generated file sites_gen.go in the scratch copy; 0 in the orchestrator).
var NSites int

const (
	modeOff   uint32 = iota // Yield returns at once (shipped behaviour)
	modeCount               // sequential runs: count steps, enforce a budget
	modeSched               // the seeded scheduler owns every goroutine
	modeDrain               // after a scheduled run: everything runs freely, steps counted against the limit
)

var (
	mode atomic.Uint32
	cur  atomic.Pointer[Sim]

	// step counter of modeCount (one goroutine only)
	seqSteps, seqLimit uint64
)

// ErrBudget is the panic value raised when a sequential run exceeds its step
// budget.
type ErrBudget struct{ Steps uint64 }

func (e ErrBudget) Error() string { return fmt.Sprintf("step budget exceeded (%d)", e.Steps) }

// Yield is the woven scheduling point. site identifies the program point.
func Yield(site uint32) {
	switch mode.Load() {
	case modeOff:
		return
	case modeCount:
		seqSteps++
		if seqSteps > seqLimit {
			panic(ErrBudget{seqSteps})
		}
	case modeSched:
		if s := cur.Load(); s != nil {
			s.yield(site)
		}
	case modeDrain:
		if drainSteps.Add(1) > drainLimit.Load() {
			panic(ErrBudget{drainSteps.Load()})
		}
	}
}

var drainSteps, drainLimit atomic.Uint64

// CountSteps runs f on the calling goroutine with step counting armed and
// returns the number of woven yields executed; it panics with ErrBudget past
// limit (the caller recovers).
func CountSteps(limit uint64, f func()) (steps uint64) {
	seqSteps, seqLimit = 0, limit
	mode.Store(modeCount)
	defer func() {
		mode.Store(modeOff)
		steps = seqSteps
	}()
	f()
	return
}

// Task is one goroutine known to the scheduler.
type Task struct {
	Name      string
	Client    int // index of the root client this task belongs to
	goid      uint64
	wake      chan struct{}
	parked    atomic.Bool
	site      uint32
	hits      []uint32
	syncHits  uint32
	parks     int
	syncParks int
	steps     uint64
	done      atomic.Bool
	rng       *SplitMix64 // per-task stream (map permutations)
	stderr    *strings.Builder
	Panic     any
	Stack     string
}

// Client is one simulated caller.
type Client struct {
	Name string
	Run  func()
}

// Config of one simulated run.
type Config struct {
	Tape      []uint32 // scheduler tape
	ActiveNum int      // a site is a yield point in this run with probability ActiveNum/ActiveDen (swarm)
	ActiveDen int
	SiteSeed  uint64
	Budget    uint32 // first Budget hits of a (task, site) park, later ones only at powers of two
	MaxSteps  uint64 // scheduler steps after which the run is abandoned (free-running drain)
	MapSeed   uint64 // seed of map-iteration permutations (0: runtime order)
	KeepLog   bool
	// Freeze strategy (atomicity windows): when FreezeAt > 0, client task
	// FreezeClient is taken out of the runnable set at its FreezeAt-th park and
	// stays out until nothing else can run (the others finished or block).
	// One tape-independent decision that opens a window as wide as a whole
	// client, which dense random switching almost never produces.
	FreezeClient int
	FreezeAt     int
	// FreezeSync: FreezeAt counts only the parks at synchronisation
	// operations (lock, unlock, pool get/put, once): "stop this client right
	// after its second pool operation and let the others run".
	FreezeSync bool
	// Handoff (HandoffAfter > 0, replaces Freeze*): client HandoffWaiter does
	// not start until client HandoffHolder has completed its HandoffAfter-th
	// synchronisation operation; then the holder stands still until nobody
	// else can run. The window in which something one instance has just
	// handed to a pool, a cache or a registry is picked up by another.
	HandoffWaiter int
	HandoffHolder int
	HandoffAfter  int
	// StepLimit > 0: a task that executes more woven yields than this panics
	// with ErrBudget (code that terminates alone within a budget and does
	// not terminate in company must not hang the simulator)
	StepLimit uint64
	// Procs is what woven runtime.GOMAXPROCS(0)/runtime.NumCPU() calls return
	// during this run (0: the real value).
	Procs int
	// ClockTape drives the simulated clock read by woven time.Now/Since: every
	// reading advances it by a step chosen by the next tape entry (0: stands
	// still; otherwise one of 1µs, 1ms, 1s, 1min, 1h — skew and jumps).
	ClockTape []uint32
}

// Event is one scheduler decision.
type Event struct {
	Task string `json:"t"`
	Site uint32 `json:"s"`
}

// Result of one simulated run.
type Result struct {
	Steps       uint64
	Switches    int // the task released differs from the one released before
	Preemptions int // … while the previous one was still runnable
	MaxRunnable int
	Tasks       int
	Adopted     int
	Ambiguous   int // adoptions whose name needed an arrival-order suffix (uncontrolled)
	LogHash     uint64
	Log         []Event
	Adjacent    []uint64 // distinct (site before switch, site after switch) pairs
	Deadlock    bool
	Handoffs    int  // handoff windows opened (the holder reached its operation)
	Thawed      int  // the frozen client was released because nothing else could run
	ClockReads  int  // readings of the simulated clock
	Abandoned   bool // MaxSteps reached: drained free-running
	TapeUsed    int
	ClientPanic []string
	Stderr      []string // per client
}

// Sim is the scheduler of one run.
type Sim struct {
	cfg     Config
	tape    *Tape
	active  []bool
	tasks   atomic.Pointer[[]*Task]
	mu      sync.Mutex
	current *Task
	nchild  map[string]int
	res     Result
	adj     map[uint64]struct{}
	clients []*Task

	clock      time.Duration
	clockTape  *Tape
	clockReads int
}

var siteStart = ^uint32(0)

func (s *Sim) find(gid uint64) *Task {
	p := s.tasks.Load()
	if p == nil {
		return nil
	}
	for _, t := range *p {
		if t.goid == gid {
			return t
		}
	}
	return nil
}

func (s *Sim) register(t *Task) {
	s.mu.Lock()
	var old []*Task
	if p := s.tasks.Load(); p != nil {
		old = *p
	}
	nw := make([]*Task, len(old)+1)
	copy(nw, old)
	nw[len(old)] = t
	s.tasks.Store(&nw)
	s.mu.Unlock()
}

func (s *Sim) newTask(name string, client int, gid uint64) *Task {
	t := &Task{Name: name, Client: client, goid: gid, wake: make(chan struct{}), hits: make([]uint32, NSites+1)}
	t.rng = NewRNG(Derive(s.cfg.MapSeed, "task", name))
	return t
}

func (s *Sim) yield(site uint32) {
	gid := Goid()
	t := s.find(gid)
	if t == nil {
		// A goroutine the scheduler has not seen: a child of the task that
		// was released last. It parks at once, whatever the site, so that it
		// never runs beside its parent.
		s.mu.Lock()
		parent := s.current
		pname, pclient := "?", -1
		if parent != nil {
			pname, pclient = parent.Name, parent.Client
		}
		base := fmt.Sprintf("%s>%d", pname, site)
		n := s.nchild[base]
		s.nchild[base] = n + 1
		if n > 0 {
			s.res.Ambiguous++
			base = fmt.Sprintf("%s#%d", base, n)
		}
		s.res.Adopted++
		s.mu.Unlock()
		t = s.newTask(base, pclient, gid)
		if parent != nil {
			t.stderr = parent.stderr
		}
		s.register(t)
		t.park(site)
		return
	}
	if s.cfg.StepLimit > 0 {
		if t.steps++; t.steps > s.cfg.StepLimit {
			panic(ErrBudget{t.steps})
		}
	}
	if int(site) < len(s.active) && !s.active[site] {
		return
	}
	h := t.hits[site]
	t.hits[site] = h + 1
	if h >= s.cfg.Budget && h&(h-1) != 0 {
		return
	}
	t.park(site)
}

func (t *Task) park(site uint32) {
	t.parks++
	if site == siteSync {
		t.syncParks++
	}
	t.site = site
	t.parked.Store(true)
	<-t.wake
}

// currentTask returns the task of the calling goroutine in scheduled mode.
func currentTask() *Task {
	if mode.Load() != modeSched {
		return nil
	}
	s := cur.Load()
	if s == nil {
		return nil
	}
	return s.find(Goid())
}

// Run executes the clients under the seeded scheduler. It must be called
// from inside a synctest bubble (see RunBubble).
func Run(cfg Config, clients []Client) Result {
	s := &Sim{cfg: cfg, tape: NewTape(cfg.Tape), nchild: map[string]int{}, adj: map[uint64]struct{}{}}
	if cfg.Budget == 0 {
		s.cfg.Budget = 4
	}
	if cfg.MaxSteps == 0 {
		s.cfg.MaxSteps = 2_000_000
	}
	s.active = make([]bool, NSites+1)
	sr := NewRNG(Derive(cfg.SiteSeed, "sites"))
	for i := range s.active {
		s.active[i] = cfg.ActiveDen <= 0 || sr.Intn(cfg.ActiveDen) < cfg.ActiveNum
	}
	if !cur.CompareAndSwap(nil, s) {
		panic("simrt: nested Run")
	}
	var wg sync.WaitGroup
	s.res.ClientPanic = make([]string, len(clients))
	for i, c := range clients {
		t := s.newTask(c.Name, i, 0)
		t.stderr = &strings.Builder{}
		s.clients = append(s.clients, t)
		wg.Add(1)
		go func() {
			defer wg.Done()
			t.goid = Goid()
			s.register(t)
			defer func() {
				if r := recover(); r != nil {
					t.Panic = r
					buf := make([]byte, 4096)
					t.Stack = string(buf[:runtime.Stack(buf, false)])
				}
				t.done.Store(true)
			}()
			t.park(siteStart)
			c.Run()
		}()
	}
	mode.Store(modeSched)
	h := NewHash()
	var prev *Task
	handoffPhase := 0
	if s.cfg.HandoffAfter > 0 {
		s.cfg.FreezeAt = 0
	}
	for {
		synctest.Wait()
		alldone := true
		for _, c := range s.clients {
			if !c.done.Load() {
				alldone = false
			}
		}
		if alldone {
			break
		}
		var runnable []*Task
		var frozen *Task
		var waiter, holder *Task
		if s.cfg.HandoffAfter > 0 && len(s.clients) > 1 {
			waiter, holder = s.clients[s.cfg.HandoffWaiter%len(s.clients)], s.clients[s.cfg.HandoffHolder%len(s.clients)]
			if waiter == holder {
				waiter = s.clients[(s.cfg.HandoffWaiter+1)%len(s.clients)]
			}
			if handoffPhase == 0 && holder.parked.Load() && holder.site == siteSync && holder.syncParks >= s.cfg.HandoffAfter {
				handoffPhase = 1
				s.res.Handoffs++
			}
		}
		for _, t := range *s.tasks.Load() {
			if t.parked.Load() {
				if waiter != nil && ((handoffPhase == 0 && t == waiter) || (handoffPhase == 1 && t == holder)) {
					frozen = t
					continue
				}
				if s.cfg.FreezeAt > 0 && t == s.clients[s.cfg.FreezeClient%len(s.clients)] &&
					((!s.cfg.FreezeSync && t.parks >= s.cfg.FreezeAt) || (s.cfg.FreezeSync && t.site == siteSync && t.syncParks >= s.cfg.FreezeAt)) {
					frozen = t
					continue
				}
				runnable = append(runnable, t)
			}
		}
		if len(runnable) == 0 && frozen != nil {
			runnable = append(runnable, frozen)
			s.cfg.FreezeAt = 0 // thawed for good
			handoffPhase = 2
			s.res.Thawed++
		}
		if len(runnable) == 0 {
			s.res.Deadlock = true
			break
		}
		if s.res.Steps >= s.cfg.MaxSteps {
			s.res.Abandoned = true
			break
		}
		sort.Slice(runnable, func(i, j int) bool { return runnable[i].Name < runnable[j].Name })
		if len(runnable) > s.res.MaxRunnable {
			s.res.MaxRunnable = len(runnable)
		}
		v := s.tape.Next()
		var pick *Task
		prevRunnable := prev != nil && prev.parked.Load()
		if v == 0 {
			if prevRunnable {
				pick = prev
			} else {
				pick = runnable[0]
			}
		} else {
			pick = runnable[int((v-1)%uint32(len(runnable)))]
		}
		if prev != nil && pick != prev {
			s.res.Switches++
			if prevRunnable {
				s.res.Preemptions++
				s.adj[uint64(prev.site)<<32|uint64(pick.site)] = struct{}{}
			}
		}
		s.res.Steps++
		h = h.AddString(pick.Name).AddUint(uint64(pick.site))
		if cfg.KeepLog && len(s.res.Log) < 200_000 {
			s.res.Log = append(s.res.Log, Event{pick.Name, pick.site})
		}
		prev = pick
		s.mu.Lock()
		s.current = pick
		s.mu.Unlock()
		pick.parked.Store(false)
		pick.wake <- struct{}{}
	}
	// Disarm and drain: whatever is still parked runs freely to completion so
	// that no goroutine outlives the run.
	if s.cfg.StepLimit > 0 {
		drainSteps.Store(0)
		drainLimit.Store(s.cfg.StepLimit)
		mode.Store(modeDrain)
	} else {
		mode.Store(modeOff)
	}
	for {
		released := false
		for _, t := range *s.tasks.Load() {
			if t.parked.CompareAndSwap(true, false) {
				t.wake <- struct{}{}
				released = true
			}
		}
		synctest.Wait()
		if !released {
			break
		}
	}
	if !s.res.Deadlock {
		wg.Wait()
	}
	mode.Store(modeOff)
	cur.Store(nil)
	s.res.LogHash = uint64(h)
	s.res.Tasks = len(*s.tasks.Load())
	s.res.TapeUsed = s.tape.Pos()
	s.res.ClockReads = s.clockReads
	for k := range s.adj {
		s.res.Adjacent = append(s.res.Adjacent, k)
	}
	slices.Sort(s.res.Adjacent)
	for i, c := range s.clients {
		if c.Panic != nil {
			s.res.ClientPanic[i] = fmt.Sprintf("%v\n%s", c.Panic, c.Stack)
		}
		s.res.Stderr = append(s.res.Stderr, c.stderr.String())
	}
	return s.res
}

// Simulated clock. Outside scheduled runs the real clock is used.
var simEpoch = time.Date(2020, 1, 1, 0, 0, 0, 0, time.UTC)

func (s *Sim) now() time.Time {
	s.mu.Lock()
	defer s.mu.Unlock()
	if s.clockTape == nil {
		s.clockTape = NewTape(s.cfg.ClockTape)
	}
	if v := s.clockTape.Next(); v != 0 {
		s.clock += []time.Duration{time.Microsecond, time.Millisecond, time.Second, time.Minute, time.Hour}[v%5]
	}
	s.clockReads++
	return simEpoch.Add(s.clock)
}

// Now replaces time.Now in woven code.
func Now() time.Time {
	if mode.Load() == modeSched {
		if s := cur.Load(); s != nil {
			return s.now()
		}
	}
	return time.Now()
}

// Since replaces time.Since in woven code.
func Since(t time.Time) time.Duration { return Now().Sub(t) }

// Until replaces time.Until in woven code.
func Until(t time.Time) time.Duration { return t.Sub(Now()) }

// Procs replaces runtime.GOMAXPROCS(0) and runtime.NumCPU() in woven code.
func Procs() int {
	if s := cur.Load(); s != nil && s.cfg.Procs > 0 {
		return s.cfg.Procs
	}
	return runtime.GOMAXPROCS(0)
}

// StderrWriter is what woven code writes to instead of os.Stderr: in a
// scheduled run the text goes to the calling client's buffer, in a captured
// sequential run to the capture buffer, otherwise to the real stderr.
type StderrWriter struct{}

var (
	captureMu  sync.Mutex
	captureBuf *strings.Builder
)

func Stderr() StderrWriter { return StderrWriter{} }

func (StderrWriter) Write(p []byte) (int, error) {
	if t := currentTask(); t != nil && t.stderr != nil {
		cur.Load().mu.Lock()
		t.stderr.Write(p)
		cur.Load().mu.Unlock()
		return len(p), nil
	}
	captureMu.Lock()
	defer captureMu.Unlock()
	if captureBuf != nil {
		captureBuf.Write(p)
		return len(p), nil
	}
	return os.Stderr.Write(p)
}

func (w StderrWriter) WriteString(s string) (int, error) { return w.Write([]byte(s)) }

// CaptureStderr runs f with woven stderr writes redirected to a buffer.
func CaptureStderr(f func()) string {
	captureMu.Lock()
	b := &strings.Builder{}
	captureBuf = b
	captureMu.Unlock()
	defer func() {
		captureMu.Lock()
		captureBuf = nil
		captureMu.Unlock()
	}()
	f()
	captureMu.Lock()
	defer captureMu.Unlock()
	return b.String()
}
