package simrt

import (
	"sync"
	"testing"
)

func TestGoid(t *testing.T) {
	if !GoidIsFast() {
		t.Fatalf("goid calibration failed")
	}
	t.Logf("offset=%d", goidOffset)
	var wg sync.WaitGroup
	for range 200 {
		wg.Add(1)
		go func() {
			defer wg.Done()
			if Goid() != slowGoid() {
				t.Errorf("mismatch")
			}
		}()
	}
	wg.Wait()
}

func BenchmarkGoid(b *testing.B) {
	for b.Loop() {
		Goid()
	}
}
