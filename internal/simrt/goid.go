package simrt

import (
	"runtime"
	"sync"
	"unsafe"
)

// getg returns the address of the running goroutine's descriptor (assembly).
func getg() uintptr

// goidOffset is the byte offset of the goid field inside the runtime's g
// struct, found by calibration at start-up (never hard-coded): the slow,
// documented way of learning a goroutine id (parsing runtime.Stack) is
// compared with the words of the descriptor on several goroutines. If no
// unique offset is found the slow way is used throughout.
var (
	goidOffset  uintptr
	goidFast    bool
	goidCalOnce sync.Once
)

func slowGoid() uint64 {
	var buf [64]byte
	n := runtime.Stack(buf[:], false)
	// "goroutine 123 ["
	var id uint64
	for i := len("goroutine "); i < n; i++ {
		c := buf[i]
		if c < '0' || c > '9' {
			break
		}
		id = id*10 + uint64(c-'0')
	}
	return id
}

//go:nocheckptr
func calibrateGoid() {
	const words = 64
	type sample struct {
		id    uint64
		match [words]bool
	}
	var samples []sample
	var mu sync.Mutex
	var wg sync.WaitGroup
	// burn goroutine ids so that the sampled ids are distinctive values
	for range 3 {
		for range 700 {
			wg.Add(1)
			go func() { wg.Done() }()
		}
		wg.Wait()
		wg.Add(1)
		go func() {
			defer wg.Done()
			id := slowGoid()
			g := getg()
			var s sample
			s.id = id
			scanG(g, id, s.match[:])
			mu.Lock()
			samples = append(samples, s)
			mu.Unlock()
		}()
		wg.Wait()
	}
	found := -1
	for w := range words {
		all := true
		for _, s := range samples {
			if !s.match[w] || s.id < 256 {
				all = false
			}
		}
		if all {
			if found >= 0 {
				return // ambiguous: stay on the slow path
			}
			found = w
		}
	}
	if found < 0 {
		return
	}
	goidOffset = uintptr(found) * 8
	// validate on the calling goroutine and one more
	ok := fastGoidRaw() == slowGoid()
	wg.Add(1)
	go func() {
		defer wg.Done()
		if fastGoidRaw() != slowGoid() {
			ok = false
		}
	}()
	wg.Wait()
	goidFast = ok
}

//go:nocheckptr
func scanG(g uintptr, id uint64, match []bool) {
	for w := range match {
		v := *(*uint64)(unsafe.Pointer(g + uintptr(w)*8))
		match[w] = v == id
	}
}

//go:nocheckptr
func fastGoidRaw() uint64 {
	return *(*uint64)(unsafe.Pointer(getg() + goidOffset))
}

// Goid returns the id of the calling goroutine.
func Goid() uint64 {
	goidCalOnce.Do(calibrateGoid)
	if goidFast {
		return fastGoidRaw()
	}
	return slowGoid()
}

// GoidIsFast reports whether calibration succeeded (evidence only).
func GoidIsFast() bool { goidCalOnce.Do(calibrateGoid); return goidFast }
