package simrt

import (
	"runtime"
	"sync"
	"unsafe"
)

// getg returns the address of the running goroutine's descriptor (assembly).
func getg() uintptr

// goidOffset is the byte offset of the goid field inside the runtime's g
// struct, found by calibration at start-up (never hard-coded): the slow,
// documented way of learning a goroutine id (parsing runtime.Stack) is
// compared with the words of the descriptor on several goroutines. If no
// unique offset is found the slow way is used throughout.
var calReason string

var (
	goidOffset  uintptr
	goidFast    bool
	goidCalOnce sync.Once
)

func slowGoid() uint64 {
	var buf [64]byte
	n := runtime.Stack(buf[:], false)
	// "goroutine 123 ["
	var id uint64
	for i := len("goroutine "); i < n; i++ {
		c := buf[i]
		if c < '0' || c > '9' {
			break
		}
		id = id*10 + uint64(c-'0')
	}
	return id
}

//go:nocheckptr
func calibrateGoid() {
	const words = 64
	type sample struct {
		id    uint64
		match [words]bool
	}
	var samples []sample
	var mu sync.Mutex
	var wg sync.WaitGroup
	// Sample goroutines whose ids are distinctive values. Ids are handed out
	// from per-P caches, so a fresh goroutine can still get a small id:
	// such samples are discarded and more are taken.
	for attempt := 0; attempt < 200 && len(samples) < 4; attempt++ {
		for range 64 {
			wg.Add(1)
			go func() { wg.Done() }()
		}
		wg.Wait()
		wg.Add(1)
		go func() {
			defer wg.Done()
			id := slowGoid()
			if id < 300 {
				return
			}
			g := getg()
			var s sample
			s.id = id
			scanG(g, id, s.match[:])
			mu.Lock()
			for _, o := range samples {
				if o.id == id {
					mu.Unlock()
					return
				}
			}
			samples = append(samples, s)
			mu.Unlock()
		}()
		wg.Wait()
	}
	if len(samples) < 4 {
		calReason = "too few samples"
		return
	}
	found := -1
	for w := range words {
		all := true
		for _, s := range samples {
			if !s.match[w] {
				all = false
			}
		}
		if all {
			if found >= 0 {
				calReason = "ambiguous"
				return // ambiguous: stay on the slow path
			}
			found = w
		}
	}
	if found < 0 {
		calReason = "no offset matches:"
		for _, s := range samples {
			calReason += " id=" + itoa(int(s.id)) + "["
			for w := range words {
				if s.match[w] {
					calReason += itoa(w) + ","
				}
			}
			calReason += "]"
		}
		return
	}
	goidOffset = uintptr(found) * 8
	// validate on the calling goroutine and one more
	ok := fastGoidRaw() == slowGoid()
	wg.Add(1)
	go func() {
		defer wg.Done()
		if fastGoidRaw() != slowGoid() {
			ok = false
		}
	}()
	wg.Wait()
	goidFast = ok
	if !ok {
		calReason = "validation failed"
	}
}

//go:nocheckptr
func scanG(g uintptr, id uint64, match []bool) {
	for w := range match {
		v := *(*uint64)(unsafe.Pointer(g + uintptr(w)*8))
		match[w] = v == id
	}
}

//go:nocheckptr
func fastGoidRaw() uint64 {
	return *(*uint64)(unsafe.Pointer(getg() + goidOffset))
}

// Goid returns the id of the calling goroutine.
func Goid() uint64 {
	goidCalOnce.Do(calibrateGoid)
	if goidFast {
		return fastGoidRaw()
	}
	return slowGoid()
}

// GoidCalReason explains a failed calibration.
func GoidCalReason() string { return calReason }

// GoidIsFast reports whether calibration succeeded (evidence only).
func GoidIsFast() bool { goidCalOnce.Do(calibrateGoid); return goidFast }
