package simrt

import (
	"runtime"
	"sync"
	"sync/atomic"
)

// Scheduler-aware replacements for the blocking primitives of package sync.
// The weaver substitutes them for sync.Mutex, sync.RWMutex and sync.Once in
// woven packages: a goroutine that waits for a lock held by a parked task
// must itself park (sync.Mutex does not block durably inside a synctest
// bubble, so the real ones would stall the scheduler). Outside scheduled
// runs they behave like the originals.

var (
	siteLock = ^uint32(0) - 1
	siteSync = ^uint32(0) - 2
)

// syncYield makes every intercepted synchronisation operation (lock,
// unlock, pool get/put, once) a scheduling point of its own, whatever the
// run's set of active sites: what another task does between a Put and the
// statement after it is exactly what these primitives are about. Budgeted per
// task like any site.
func syncYield() {
	if mode.Load() != modeSched {
		return
	}
	s := cur.Load()
	if s == nil {
		return
	}
	t := s.find(Goid())
	if t == nil {
		return
	}
	h := t.syncHits
	t.syncHits = h + 1
	if h >= 64 && h&(h-1) != 0 {
		return
	}
	t.park(siteSync)
}

func lockWait() {
	if mode.Load() == modeSched {
		if s := cur.Load(); s != nil {
			if t := s.find(Goid()); t != nil {
				t.park(siteLock)
				return
			}
		}
	}
	runtime.Gosched()
}

type Mutex struct{ m sync.Mutex }

func (m *Mutex) Lock() {
	syncYield()
	for !m.m.TryLock() {
		lockWait()
	}
}
func (m *Mutex) Unlock()       { m.m.Unlock(); syncYield() }
func (m *Mutex) TryLock() bool { return m.m.TryLock() }

type RWMutex struct{ m sync.RWMutex }

func (m *RWMutex) Lock() {
	syncYield()
	for !m.m.TryLock() {
		lockWait()
	}
}
func (m *RWMutex) Unlock() { m.m.Unlock(); syncYield() }
func (m *RWMutex) RLock() {
	syncYield()
	for !m.m.TryRLock() {
		lockWait()
	}
}
func (m *RWMutex) RUnlock()       { m.m.RUnlock(); syncYield() }
func (m *RWMutex) TryLock() bool  { return m.m.TryLock() }
func (m *RWMutex) TryRLock() bool { return m.m.TryRLock() }
func (m *RWMutex) RLocker() sync.Locker {
	return rlocker{m}
}

type rlocker struct{ m *RWMutex }

func (r rlocker) Lock()   { r.m.RLock() }
func (r rlocker) Unlock() { r.m.RUnlock() }

type Once struct {
	done atomic.Bool
	m    Mutex
}

func (o *Once) Do(f func()) {
	syncYield()
	if o.done.Load() {
		return
	}
	o.m.Lock()
	defer o.m.Unlock()
	if !o.done.Load() {
		defer o.done.Store(true)
		f()
	}
}

// Pool replaces sync.Pool in woven code. The real pool hands objects out per
// P, which is both an uncontrolled source of nondeterminism and a way for two
// goroutines to end up with one object; the simulated pool is one LIFO shared
// by all tasks (an object is available to every task the moment it is put
// back, and is never dropped), the same in sequential reference runs and under
// the scheduler, where Get/Put are scheduling points as well.
type Pool struct {
	New  func() any
	mu   sync.Mutex
	free []any
}

func (p *Pool) Get() any {
	// a LIFO free list in every mode: legal sync.Pool behaviour, and the same
	// in the sequential reference runs as under the scheduler
	if mode.Load() == modeSched {
		syncYield()
	}
	p.mu.Lock()
	var x any
	if n := len(p.free); n > 0 {
		x = p.free[n-1]
		p.free = p.free[:n-1]
	}
	p.mu.Unlock()
	if x == nil && p.New != nil {
		x = p.New()
	}
	return x
}

func (p *Pool) Put(x any) {
	if x == nil {
		return
	}
	p.mu.Lock()
	p.free = append(p.free, x)
	p.mu.Unlock()
	if mode.Load() == modeSched {
		syncYield()
	}
}

// OnceFunc, OnceValue and OnceValues replace their package sync namesakes in
// woven code (the originals run f under a real sync.Once, which a task parked
// inside f would hold against every other task without the scheduler seeing
// it). Panics are not re-raised on later calls, unlike the originals: woven
// code that relies on that would be noticed by the comparison anyway.
func OnceFunc(f func()) func() {
	var o Once
	return func() { o.Do(f) }
}

func OnceValue[T any](f func() T) func() T {
	var o Once
	var v T
	return func() T {
		o.Do(func() { v = f() })
		return v
	}
}

func OnceValues[T1, T2 any](f func() (T1, T2)) func() (T1, T2) {
	var o Once
	var v1 T1
	var v2 T2
	return func() (T1, T2) {
		o.Do(func() { v1, v2 = f() })
		return v1, v2
	}
}
