package simrt

import (
	"runtime"
	"sync"
	"sync/atomic"
)

// Scheduler-aware replacements for the blocking primitives of package sync.
// The weaver substitutes them for sync.Mutex, sync.RWMutex and sync.Once in
// woven packages: a goroutine that waits for a lock held by a parked task
// must itself park (sync.Mutex does not block durably inside a synctest
// bubble, so the real ones would stall the scheduler). Outside scheduled
// runs they behave like the originals.

var siteLock = ^uint32(0) - 1

func lockWait() {
	if mode.Load() == modeSched {
		if s := cur.Load(); s != nil {
			if t := s.find(Goid()); t != nil {
				t.park(siteLock)
				return
			}
		}
	}
	runtime.Gosched()
}

type Mutex struct{ m sync.Mutex }

func (m *Mutex) Lock() {
	for !m.m.TryLock() {
		lockWait()
	}
}
func (m *Mutex) Unlock()       { m.m.Unlock() }
func (m *Mutex) TryLock() bool { return m.m.TryLock() }

type RWMutex struct{ m sync.RWMutex }

func (m *RWMutex) Lock() {
	for !m.m.TryLock() {
		lockWait()
	}
}
func (m *RWMutex) Unlock() { m.m.Unlock() }
func (m *RWMutex) RLock() {
	for !m.m.TryRLock() {
		lockWait()
	}
}
func (m *RWMutex) RUnlock()       { m.m.RUnlock() }
func (m *RWMutex) TryLock() bool  { return m.m.TryLock() }
func (m *RWMutex) TryRLock() bool { return m.m.TryRLock() }
func (m *RWMutex) RLocker() sync.Locker {
	return rlocker{m}
}

type rlocker struct{ m *RWMutex }

func (r rlocker) Lock()   { r.m.RLock() }
func (r rlocker) Unlock() { r.m.RUnlock() }

type Once struct {
	done atomic.Bool
	m    Mutex
}

func (o *Once) Do(f func()) {
	if o.done.Load() {
		return
	}
	o.m.Lock()
	defer o.m.Unlock()
	if !o.done.Load() {
		defer o.done.Store(true)
		f()
	}
}
