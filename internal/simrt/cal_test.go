package simrt

import (
	"runtime"
	"sync"
	"sync/atomic"
	"testing"
)

func TestCalibrateUnderLoad(t *testing.T) {
	var stop atomic.Bool
	var wg sync.WaitGroup
	for range runtime.NumCPU() * 2 {
		wg.Add(1)
		go func() {
			defer wg.Done()
			x := 0
			for !stop.Load() {
				x++
				if x%1000000 == 0 {
					runtime.Gosched()
				}
			}
		}()
	}
	fails := 0
	for i := range 300 {
		goidFast, goidOffset = false, 0
		calibrateGoid()
		if !goidFast {
			fails++
			t.Logf("iteration %d: calibration failed (offset %d) reason %s", i, goidOffset, calReason)
		}
	}
	stop.Store(true)
	wg.Wait()
	if fails > 0 {
		t.Fatalf("%d failures", fails)
	}
}
