package simrt

// Memo-table faults ("buggify" points woven into emitted parsers). The memo
// table is a cache whose content must never matter (C06), so the simulator
// may lose any store, miss any lookup and evict the whole table at any call.
const (
	FaultDropStore  = 1 // memoize returns without storing
	FaultMissLookup = 2 // a present entry is treated as absent
	FaultEvictAll   = 3 // the table is emptied now
	faultKinds      = 4
)

// MemoStats counts what happened in the current parse.
type MemoStats struct {
	Stores, Lookups        uint64 // calls reaching the fault points (Lookups = hits on a present entry)
	Dropped, Missed, Evict uint64 // faults that actually fired
}

var (
	memoArmed bool
	memoTape  *Tape
	memoCfg   MemoFaultCfg
	Memo      MemoStats
)

// MemoFaultCfg: a fault of a kind fires when the tape entry read for the
// call, reduced modulo Den, is below the kind's numerator. A zero entry never
// fires, so a zeroed tape is the fault-free run.
type MemoFaultCfg struct {
	Drop, Miss, Evict uint32 // numerators
	Den               uint32
}

// ArmMemoFaults installs the fault tape for the parses that follow on this
// goroutine (sequential modes only).
func ArmMemoFaults(tape []uint32, cfg MemoFaultCfg) {
	memoArmed, memoTape, memoCfg = true, NewTape(tape), cfg
	Memo = MemoStats{}
}

func DisarmMemoFaults() { memoArmed = false; memoTape = nil }

// MemoFault is called by woven code; true means "inject the fault here".
func MemoFault(kind int) bool {
	if !memoArmed {
		return false
	}
	switch kind {
	case FaultDropStore:
		Memo.Stores++
	case FaultMissLookup:
		Memo.Lookups++
	}
	v := memoTape.Next()
	if v == 0 || memoCfg.Den == 0 {
		return false
	}
	r := (v >> 1) % memoCfg.Den
	switch kind {
	case FaultDropStore:
		if r < memoCfg.Drop {
			Memo.Dropped++
			return true
		}
	case FaultMissLookup:
		if r < memoCfg.Miss {
			Memo.Missed++
			return true
		}
	case FaultEvictAll:
		if r < memoCfg.Evict {
			Memo.Evict++
			return true
		}
	}
	return false
}
