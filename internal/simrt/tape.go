// Package simrt is the runtime of the deterministic simulator. It is linked
// both into the orchestrator (module verif) and, as a verbatim copy under
// github.com/pointlander/peg/zzsim/simrt, into the scratch copies of the
// repository that the checks build. It uses the standard library only.
package simrt

import "hash/fnv"

// SplitMix64 is the only pseudo-random source of the simulator. Every
// choice of a run is derived from streams of it seeded from
// (VERIF_SEED, property, run index, stream name).
type SplitMix64 struct{ s uint64 }

func NewRNG(seed uint64) *SplitMix64 { return &SplitMix64{s: seed} }

func (r *SplitMix64) Uint64() uint64 {
	r.s += 0x9e3779b97f4a7c15
	z := r.s
	z = (z ^ (z >> 30)) * 0xbf58476d1ce4e5b9
	z = (z ^ (z >> 27)) * 0x94d049bb133111eb
	return z ^ (z >> 31)
}

func (r *SplitMix64) Uint32() uint32 { return uint32(r.Uint64() >> 32) }

// nonzero is a uniform non-zero 32-bit value (0 is reserved on tapes for
// "least disruptive choice").
func (r *SplitMix64) nonzero() uint32 {
	for {
		if v := r.Uint32(); v != 0 {
			return v
		}
	}
}

// Intn returns a value in [0,n). n<=0 yields 0.
func (r *SplitMix64) Intn(n int) int {
	if n <= 1 {
		return 0
	}
	return int(r.Uint64() % uint64(n))
}

// Chance is true with probability num/den.
func (r *SplitMix64) Chance(num, den int) bool { return r.Intn(den) < num }

// Float is uniform in [0,1).
func (r *SplitMix64) Float() float64 { return float64(r.Uint64()>>11) / (1 << 53) }

// Derive makes an independent stream seed from a parent seed and labels.
func Derive(seed uint64, labels ...string) uint64 {
	h := fnv.New64a()
	var b [8]byte
	for i := range 8 {
		b[i] = byte(seed >> (8 * i))
	}
	h.Write(b[:])
	for _, l := range labels {
		h.Write([]byte{0})
		h.Write([]byte(l))
	}
	// one splitmix round to decorrelate
	return NewRNG(h.Sum64()).Uint64()
}

// DeriveN is Derive with a trailing integer label.
func DeriveN(seed uint64, label string, n int) uint64 {
	return Derive(seed, label, itoa(n))
}

func itoa(n int) string {
	if n == 0 {
		return "0"
	}
	neg := n < 0
	if neg {
		n = -n
	}
	var b [24]byte
	i := len(b)
	for n > 0 {
		i--
		b[i] = byte('0' + n%10)
		n /= 10
	}
	if neg {
		i--
		b[i] = '-'
	}
	return string(b[i:])
}

// Tape is a finite list of choices. Reading past the end yields 0, and 0
// always means the least disruptive choice (keep running the same task, no
// fault). A run is a pure function of its tapes and the code, so shrinking a
// failing run is truncating and zeroing its tapes.
type Tape struct {
	Data []uint32
	pos  int
}

func NewTape(data []uint32) *Tape { return &Tape{Data: data} }

func (t *Tape) Next() uint32 {
	if t == nil || t.pos >= len(t.Data) {
		if t != nil {
			t.pos++
		}
		return 0
	}
	v := t.Data[t.pos]
	t.pos++
	return v
}

// Pos is the number of entries read so far (also beyond the end).
func (t *Tape) Pos() int {
	if t == nil {
		return 0
	}
	return t.pos
}

func (t *Tape) Rewind() { t.pos = 0 }

// Fill styles for scheduler tapes: the scheduler has one rule (0 = keep the
// running task, v>0 = switch to runnable[(v-1) mod n]); strategies differ
// only in how the tape is filled.
const (
	FillUniform = iota // every entry random non-zero: a switch decision at every step
	FillSparse         // non-zero with probability 1/k: few preemptions (PCT-like)
	FillQuantum        // runs of zeros of random length, then one non-zero
	FillFew            // param non-zero entries at random places of a random-length prefix: long uninterrupted stretches with a handful of preemptions
	FillStyles
)

func FillTape(r *SplitMix64, n int, style int, param int) []uint32 {
	out := make([]uint32, n)
	if param < 1 {
		param = 1
	}
	switch style {
	case FillUniform:
		for i := range out {
			out[i] = r.nonzero()
		}
	case FillSparse:
		for i := range out {
			if r.Intn(param) == 0 {
				out[i] = r.nonzero()
			}
		}
	case FillFew:
		span := []int{200, 800, 3000, 12000, n}[r.Intn(5)]
		if span > n {
			span = n
		}
		for range param {
			if span > 0 {
				out[r.Intn(span)] = r.nonzero()
			}
		}
	case FillQuantum:
		i := 0
		for i < n {
			i += r.Intn(2*param + 1)
			if i < n {
				out[i] = r.nonzero()
				i++
			}
		}
	}
	return out
}

// FillFaultTape: each entry non-zero with probability num/den.
func FillFaultTape(r *SplitMix64, n, num, den int) []uint32 {
	out := make([]uint32, n)
	if num <= 0 {
		return out
	}
	for i := range out {
		if r.Intn(den) < num {
			out[i] = r.nonzero()
		}
	}
	return out
}

// Hash64 is an incremental FNV-1a used for event-log digests.
type Hash64 uint64

const hashInit Hash64 = 14695981039346656037

func NewHash() Hash64 { return hashInit }

func (h Hash64) AddByte(b byte) Hash64 { return (h ^ Hash64(b)) * 1099511628211 }

func (h Hash64) AddUint(v uint64) Hash64 {
	for i := range 8 {
		h = h.AddByte(byte(v >> (8 * i)))
	}
	return h
}

func (h Hash64) AddString(s string) Hash64 {
	for i := 0; i < len(s); i++ {
		h = h.AddByte(s[i])
	}
	return h.AddByte(0xff)
}
