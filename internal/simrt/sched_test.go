package simrt

import (
	"fmt"
	"strings"
	"sync"
	"testing"
	"testing/synctest"
)

// toy workload: each client spawns two goroutines that append to a shared
// (per client) log with yields in between; a racy "shared" variable lets
// different interleavings produce different results.
func toyClient(out *[]string, shared *int, name string) func() {
	return func() {
		var wg sync.WaitGroup
		var mu Mutex
		wg.Go(func() {
			Yield(1)
			for i := range 5 {
				Yield(2)
				mu.Lock()
				v := *shared
				Yield(3)
				*shared = v + 1
				mu.Unlock()
				*out = append(*out, fmt.Sprintf("%s.a%d", name, i))
			}
		})
		wg.Go(func() {
			Yield(4)
			for i := range 5 {
				Yield(5)
				v := *shared
				Yield(6)
				*shared = v * 2
				*out = append(*out, fmt.Sprintf("%s.b%d", name, i))
			}
		})
		Yield(7)
		wg.Wait()
		Yield(8)
	}
}

func runToy(t *testing.T, seed uint64, style int) (string, Result) {
	var res Result
	var sig string
	synctest.Test(t, func(t *testing.T) {
		r := NewRNG(seed)
		tape := FillTape(r, 400, style, 4)
		var logs [3][]string
		var shared [3]int
		var clients []Client
		for i := range 3 {
			n := fmt.Sprintf("c%d", i)
			clients = append(clients, Client{n, toyClient(&logs[i], &shared[i], n)})
		}
		res = Run(Config{Tape: tape, Budget: 100, KeepLog: true}, clients)
		sig = fmt.Sprint(shared, logs)
	})
	return sig, res
}

func TestSchedDeterministic(t *testing.T) {
	NSites = 16
	distinct := map[uint64]bool{}
	sigs := map[string]bool{}
	for seed := uint64(1); seed <= 40; seed++ {
		a, ra := runToy(t, seed, int(seed)%FillStyles)
		b, rb := runToy(t, seed, int(seed)%FillStyles)
		if a != b || ra.LogHash != rb.LogHash || ra.Steps != rb.Steps {
			t.Fatalf("seed %d not deterministic:\n%s\n%s", seed, a, b)
		}
		if ra.Deadlock || ra.Abandoned || ra.Ambiguous != 0 {
			t.Fatalf("seed %d: %+v", seed, ra)
		}
		if ra.Tasks != 9 {
			t.Fatalf("tasks=%d", ra.Tasks)
		}
		distinct[ra.LogHash] = true
		sigs[a] = true
	}
	if len(distinct) < 30 || len(sigs) < 10 {
		t.Fatalf("too few interleavings: %d logs %d outcomes", len(distinct), len(sigs))
	}
	t.Logf("%d distinct logs, %d distinct outcomes", len(distinct), len(sigs))
}

func TestZeroTapeIsSequential(t *testing.T) {
	NSites = 16
	var res Result
	synctest.Test(t, func(t *testing.T) {
		var logs [2][]string
		var shared [2]int
		res = Run(Config{Budget: 100, KeepLog: true}, []Client{
			{"c0", toyClient(&logs[0], &shared[0], "c0")},
			{"c1", toyClient(&logs[1], &shared[1], "c1")},
		})
	})
	if res.Preemptions != 0 {
		var b strings.Builder
		for _, e := range res.Log {
			fmt.Fprintf(&b, "%s@%d ", e.Task, e.Site)
		}
		t.Fatalf("zero tape preempted %d times: %s", res.Preemptions, b.String())
	}
}
