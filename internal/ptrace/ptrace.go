//go:build linux && amd64

// Package ptrace is the simulated "disk" of the CLI check: it runs one
// program under ptrace and makes chosen system calls on chosen paths fail.
// Unlike strace's -e inject (whose when= counter is kept per thread, so that
// under the Go runtime's thread migration "the 9000th write" fires anywhere
// between the 9000th and never), calls are counted globally per (path,
// system call), which makes a fault position exact and replayable.
package ptrace

import (
	"fmt"
	"os"
	"os/exec"
	"path/filepath"
	"runtime"
	"strings"
	"syscall"
	"unsafe"
)

type Fault struct {
	Target     string `json:"target"`  // name of a watched path
	Syscall    string `json:"syscall"` // openat | read | write | close
	Errno      int    `json:"errno"`   // >0: fail with this errno; 0: succeed with return value 0 (premature EOF); <0: let the call proceed and deliver signal -Errno to the process at this point
	When       int    `json:"when"`    // 1-based index among the calls of Syscall on Target
	Persistent bool   `json:"persistent,omitempty"`
}

type Spec struct {
	Argv   []string          `json:"argv"`
	Dir    string            `json:"dir"`
	Env    []string          `json:"env"`
	Stdin  string            `json:"stdin,omitempty"` // file names; empty = /dev/null
	Stdout string            `json:"stdout,omitempty"`
	Stderr string            `json:"stderr,omitempty"`
	Watch  map[string]string `json:"watch"` // target name → absolute path
	// StdinPipe: feed the file named by Stdin through a pipe in chunks of this
	// many bytes (reads then return short counts, as on a terminal or a slow
	// producer); reads on descriptor 0 are attributed to target "src".
	StdinPipe int `json:"stdin_pipe,omitempty"`
	// Uid/Gid > 0: run the program under these credentials (the tracer stays root)
	Uid int `json:"uid,omitempty"`
	Gid int `json:"gid,omitempty"`
	// WatchDir: every other path below this directory is target "dir"
	WatchDir string  `json:"watch_dir,omitempty"`
	Faults   []Fault `json:"faults"`
	MaxCall  int     `json:"max_calls,omitempty"`
}

type Injected struct {
	Target  string `json:"target"`
	Syscall string `json:"syscall"`
	Errno   int    `json:"errno"`
	Index   int    `json:"index"` // which call of Syscall on Target was hit
}

type Result struct {
	Exit     int            `json:"exit"`
	Signal   int            `json:"signal,omitempty"`
	Calls    map[string]int `json:"calls"`     // "target:syscall" → number of calls seen
	ReadLens []int          `json:"read_lens"` // results of successful reads on target "src" before the first injected read
	Injected []Injected     `json:"injected"`
	Threads  int            `json:"threads"`
	Syscalls int            `json:"syscalls"`
}

const (
	sysRead   = 0
	sysWrite  = 1
	sysOpen   = 2
	sysClose  = 3
	sysOpenat = 257

	sysFsync     = 74
	sysFdatasync = 75
	sysFtruncate = 77
	sysRename    = 82
	sysUnlink    = 87
	sysUnlinkat  = 263
	sysRenameat  = 264
	sysRenameat2 = 316

	optSysgood  = 0x1
	optClone    = 0x8
	optFork     = 0x2
	optVfork    = 0x4
	optExitKill = 0x100000
	evClone     = 3
	evFork      = 1
	evVfork     = 2
	wall        = 0x40000000
)

type thread struct {
	inSyscall bool
	pending   *Fault
	seen      bool
	// call being executed, for bookkeeping at exit
	sys    string
	target string
	fd     int
	path   string
}

func peekString(pid int, addr uintptr) string {
	var out []byte
	buf := make([]byte, 256)
	for len(out) < 4096 {
		n, err := syscall.PtracePeekData(pid, addr+uintptr(len(out)), buf)
		if err != nil || n == 0 {
			break
		}
		for i := 0; i < n; i++ {
			if buf[i] == 0 {
				return string(append(out, buf[:i]...))
			}
		}
		out = append(out, buf[:n]...)
	}
	return string(out)
}

// Run executes the spec. It must own its OS thread: every ptrace request has
// to come from the thread that started the tracee.
func Run(sp *Spec) (*Result, error) {
	runtime.LockOSThread()
	defer runtime.UnlockOSThread()
	res := &Result{Calls: map[string]int{}, Exit: -1}
	byPath := map[string]string{}
	for t, p := range sp.Watch {
		byPath[filepath.Clean(p)] = t
	}
	open := func(name string, flag int) (*os.File, error) {
		if name == "" {
			return os.OpenFile(os.DevNull, flag&^(os.O_CREATE|os.O_TRUNC), 0)
		}
		return os.OpenFile(name, flag, 0o644)
	}
	in, err := open(sp.Stdin, os.O_RDONLY)
	if err != nil {
		return nil, err
	}
	defer in.Close()
	var pipeW *os.File
	feed := make(chan struct{}, 1<<16)
	if sp.StdinPipe > 0 && sp.Stdin != "" {
		data, err := os.ReadFile(sp.Stdin)
		if err != nil {
			return nil, err
		}
		pr, pw, err := os.Pipe()
		if err != nil {
			return nil, err
		}
		in.Close()
		in, pipeW = pr, pw
		go func() {
			defer pw.Close()
			for len(data) > 0 {
				// one chunk per read call of the tracee: the pipe never
				// holds more than the chunk the pending read will return
				<-feed
				n := min(sp.StdinPipe, len(data))
				if _, err := pw.Write(data[:n]); err != nil {
					return
				}
				data = data[n:]
			}
		}()
	}
	out, err := open(sp.Stdout, os.O_WRONLY|os.O_CREATE|os.O_TRUNC)
	if err != nil {
		return nil, err
	}
	defer out.Close()
	errf, err := open(sp.Stderr, os.O_WRONLY|os.O_CREATE|os.O_TRUNC)
	if err != nil {
		return nil, err
	}
	defer errf.Close()
	cmd := exec.Command(sp.Argv[0], sp.Argv[1:]...)
	cmd.Dir = sp.Dir
	cmd.Env = sp.Env
	cmd.Stdin, cmd.Stdout, cmd.Stderr = in, out, errf
	cmd.SysProcAttr = &syscall.SysProcAttr{Ptrace: true}
	if sp.Uid > 0 {
		cmd.SysProcAttr.Credential = &syscall.Credential{Uid: uint32(sp.Uid), Gid: uint32(sp.Gid), NoSetGroups: false}
	}
	if err := cmd.Start(); err != nil {
		return nil, fmt.Errorf("ptrace: start: %w", err)
	}
	main := cmd.Process.Pid
	var ws syscall.WaitStatus
	if _, err := syscall.Wait4(main, &ws, 0, nil); err != nil {
		return nil, fmt.Errorf("ptrace: first wait: %w", err)
	}
	if !ws.Stopped() {
		return nil, fmt.Errorf("ptrace: tracee did not stop after exec (status %#x)", uint32(ws))
	}
	// cap the address space of the tracee: code under test that allocates
	// without bound must die instead of taking the machine with it
	lim := [2]uint64{8 << 30, 8 << 30}
	_, _, _ = syscall.RawSyscall6(syscall.SYS_PRLIMIT64, uintptr(main), 9 /* RLIMIT_AS */, uintptr(unsafe.Pointer(&lim)), 0, 0, 0)
	if err := syscall.PtraceSetOptions(main, optSysgood|optClone|optFork|optVfork|optExitKill); err != nil {
		return nil, fmt.Errorf("ptrace: setoptions: %w", err)
	}
	threads := map[int]*thread{main: {seen: true}}
	res.Threads = 1
	if err := syscall.PtraceSyscall(main, 0); err != nil {
		return nil, fmt.Errorf("ptrace: resume: %w", err)
	}
	pathTarget := func(p string) string {
		if !filepath.IsAbs(p) {
			p = filepath.Join(sp.Dir, p)
		}
		p = filepath.Clean(p)
		if t, ok := byPath[p]; ok {
			return t
		}
		if sp.WatchDir != "" && strings.HasPrefix(p, filepath.Clean(sp.WatchDir)+"/") {
			return "dir"
		}
		return ""
	}
	fdTarget := func(pid, fd int) string {
		p, err := os.Readlink(fmt.Sprintf("/proc/%d/fd/%d", pid, fd))
		if err != nil {
			return ""
		}
		if pipeW != nil && fd == 0 && strings.HasPrefix(p, "pipe:") {
			return "src"
		}
		if t, ok := byPath[filepath.Clean(p)]; ok {
			return t
		}
		if sp.WatchDir != "" && strings.HasPrefix(filepath.Clean(p), filepath.Clean(sp.WatchDir)+"/") {
			return "dir"
		}
		return ""
	}
	pick := func(target, sys string, idx int) *Fault {
		for i := range sp.Faults {
			f := &sp.Faults[i]
			if f.Target == target && f.Syscall == sys && (idx == f.When || (f.Persistent && idx > f.When)) {
				return f
			}
		}
		return nil
	}
	readsOpen := true
	live := 1
	for live > 0 {
		var st syscall.WaitStatus
		pid, err := syscall.Wait4(-1, &st, wall, nil)
		if err != nil {
			if err == syscall.EINTR {
				continue
			}
			if err == syscall.ECHILD {
				break
			}
			return nil, fmt.Errorf("ptrace: wait: %w", err)
		}
		th := threads[pid]
		if th == nil {
			th = &thread{}
			threads[pid] = th
			live++
			res.Threads++
		}
		switch {
		case st.Exited():
			if pid == main {
				res.Exit = st.ExitStatus()
			}
			delete(threads, pid)
			live--
			continue
		case st.Signaled():
			if pid == main {
				res.Exit = 128 + int(st.Signal())
				res.Signal = int(st.Signal())
			}
			delete(threads, pid)
			live--
			continue
		case !st.Stopped():
			continue
		}
		sig := st.StopSignal()
		event := int(uint32(st) >> 16)
		switch {
		case sig == syscall.SIGTRAP|0x80:
			res.Syscalls++
			var regs syscall.PtraceRegs
			if err := syscall.PtraceGetRegs(pid, &regs); err != nil {
				_ = syscall.PtraceSyscall(pid, 0)
				continue
			}
			if !th.inSyscall {
				th.inSyscall = true
				th.sys, th.target, th.pending = "", "", nil
				switch regs.Orig_rax {
				case sysRead:
					th.sys, th.fd = "read", int(int32(regs.Rdi))
				case sysWrite:
					th.sys, th.fd = "write", int(int32(regs.Rdi))
				case sysClose:
					th.sys, th.fd = "close", int(int32(regs.Rdi))
				case sysFsync, sysFdatasync:
					th.sys, th.fd = "fsync", int(int32(regs.Rdi))
				case sysFtruncate:
					th.sys, th.fd = "ftruncate", int(int32(regs.Rdi))
				case sysRename, sysRenameat, sysRenameat2:
					// the target of a rename is where the new name lands
					th.sys = "rename"
					addr := uintptr(regs.Rsi)
					if regs.Orig_rax != sysRename {
						addr = uintptr(regs.R10)
					}
					th.target = pathTarget(peekString(pid, addr))
				case sysUnlink, sysUnlinkat:
					th.sys = "unlink"
					addr := uintptr(regs.Rdi)
					if regs.Orig_rax == sysUnlinkat {
						addr = uintptr(regs.Rsi)
					}
					th.target = pathTarget(peekString(pid, addr))
				case sysOpenat, sysOpen:
					th.sys = "openat"
					addr := uintptr(regs.Rsi)
					if regs.Orig_rax == sysOpen {
						addr = uintptr(regs.Rdi)
					}
					th.target = pathTarget(peekString(pid, addr))
				}
				switch th.sys {
				case "read", "write", "close", "fsync", "ftruncate":
					th.target = fdTarget(pid, th.fd)
				}
				if th.sys == "read" && th.target == "src" && pipeW != nil {
					select {
					case feed <- struct{}{}:
					default:
					}
				}
				if th.target != "" {
					key := th.target + ":" + th.sys
					res.Calls[key]++
					if f := pick(th.target, th.sys, res.Calls[key]); f != nil && f.Errno < 0 {
						// a signal arriving while this call is in flight
						res.Injected = append(res.Injected, Injected{th.target, th.sys, f.Errno, res.Calls[key]})
						_ = syscall.Kill(main, syscall.Signal(-f.Errno))
					} else if f != nil {
						th.pending = f
						res.Injected = append(res.Injected, Injected{th.target, th.sys, f.Errno, res.Calls[key]})
						regs.Orig_rax = ^uint64(0) // skip the call
						if err := syscall.PtraceSetRegs(pid, &regs); err != nil {
							return nil, fmt.Errorf("ptrace: setregs: %w", err)
						}
						if th.sys == "read" && th.target == "src" {
							readsOpen = false
						}
					}
				}
			} else {
				th.inSyscall = false
				if th.pending != nil {
					if th.pending.Errno > 0 {
						regs.Rax = uint64(-int64(th.pending.Errno))
					} else {
						regs.Rax = 0
					}
					if err := syscall.PtraceSetRegs(pid, &regs); err != nil {
						return nil, fmt.Errorf("ptrace: setregs: %w", err)
					}
					th.pending = nil
				} else if th.sys == "read" && th.target == "src" && readsOpen {
					if n := int64(regs.Rax); n > 0 {
						res.ReadLens = append(res.ReadLens, int(n))
					}
				}
			}
			_ = syscall.PtraceSyscall(pid, 0)
		case sig == syscall.SIGTRAP && (event == evClone || event == evFork || event == evVfork):
			_ = syscall.PtraceSyscall(pid, 0)
		case sig == syscall.SIGSTOP && !th.seen:
			// first stop of an auto-attached thread
			th.seen = true
			_ = syscall.PtraceSyscall(pid, 0)
		case sig == syscall.SIGTRAP:
			// exec or other ptrace event stop
			_ = syscall.PtraceSyscall(pid, 0)
		default:
			th.seen = true
			_ = syscall.PtraceSyscall(pid, int(sig))
		}
	}
	_ = cmd.Process.Release()
	return res, nil
}
