// Package weave instruments Go source text for the simulator. It never
// reprints a file: every change is a textual insertion or replacement at an
// offset taken from the parsed AST, so comments, directives and line numbers
// of the code under test are preserved and the rules are shape-agnostic
// (they apply equally to code added by a change to the repository).
package weave

import (
	"bytes"
	"fmt"
	"go/ast"
	"go/build"
	"go/importer"
	"go/parser"
	"go/token"
	"go/types"
	"os"
	"path/filepath"
	"sort"
	"strings"
)

const SimrtPath = "github.com/pointlander/peg/zzsim/simrt"
const alias = "zzsimrt"

type Options struct {
	// StmtYields: besides function/closure entries and loop bodies, a yield
	// is inserted before every statement that stands directly in a block or
	// in a case clause (finer interleavings: two statements of one function
	// can be separated by another task)
	StmtYields bool
	Yields     bool
	MemoFaults bool
	SyncTypes  bool
	Stderr     bool
	MapRanges  bool
	// Procs: runtime.GOMAXPROCS(0) and runtime.NumCPU() become simrt.Procs(),
	// a per-run value chosen by the simulator (the number of processors is an
	// input of the environment like any other)
	Procs bool
	// Clock: time.Now() and time.Since(x) become simrt.Now() / simrt.Since(x),
	// a simulated clock that the run's tape makes stand still, creep or jump
	Clock bool
}

type Site struct {
	ID   int    `json:"id"`
	File string `json:"file"`
	Line int    `json:"line"`
	Kind string `json:"kind"`
	Func string `json:"func,omitempty"`
}

type Stats struct {
	Files          int
	YieldSites     int
	MemoDropPoints int
	MemoMissPoints int
	MemoEvictPoint int
	SyncReplaced   int
	ProcsReplaced  int
	ClockReplaced  int
	StderrReplaced int
	MapRangesWoven int
	MapRangesSeen  int // range statements over a map type found by go/types
	TypeCheckError string
}

type Weaver struct {
	Sites []Site
	Stats Stats
	// ModuleDir is the root of the module being woven: go/build resolves
	// module-local imports by running `go list` there.
	ModuleDir string

	fset *token.FileSet
	imp  types.Importer
}

type edit struct {
	off, del int
	text     string
	seq      int
}

// WeaveDir instruments every non-test .go file of the package in dir, in
// place. rel is the path shown in the site table.
func (w *Weaver) WeaveDir(dir, rel string, opt Options) error {
	ents, err := os.ReadDir(dir)
	if err != nil {
		return err
	}
	var names []string
	for _, e := range ents {
		n := e.Name()
		if e.IsDir() || !strings.HasSuffix(n, ".go") || strings.HasSuffix(n, "_test.go") {
			continue
		}
		names = append(names, n)
	}
	sort.Strings(names)
	return w.WeaveFiles(dir, rel, names, opt)
}

// WeaveFiles instruments the named files of one package.
func (w *Weaver) WeaveFiles(dir, rel string, names []string, opt Options) error {
	if w.fset == nil {
		w.fset = token.NewFileSet()
	}
	fset := w.fset
	var files []*ast.File
	srcs := map[string][]byte{}
	for _, n := range names {
		p := filepath.Join(dir, n)
		src, err := os.ReadFile(p)
		if err != nil {
			return err
		}
		f, err := parser.ParseFile(fset, p, src, parser.ParseComments|parser.SkipObjectResolution)
		if err != nil {
			return fmt.Errorf("weave: parse %s: %w", p, err)
		}
		files = append(files, f)
		srcs[p] = src
	}
	var info *types.Info
	if opt.MapRanges {
		info = &types.Info{Types: map[ast.Expr]types.TypeAndValue{}}
		if w.imp == nil {
			if w.ModuleDir != "" {
				build.Default.Dir = w.ModuleDir
			}
			w.imp = importer.ForCompiler(fset, "source", nil)
		}
		conf := types.Config{
			Importer: w.imp,
			Error:    func(error) {},
		}
		// all files of dir incl. ones we do not weave would be needed for a
		// complete check; errors are tolerated (types of the expressions we
		// ask about are still recorded when resolvable).
		if _, err := conf.Check(rel, fset, files, info); err != nil && w.Stats.TypeCheckError == "" {
			w.Stats.TypeCheckError = err.Error()
		}
	}
	for _, f := range files {
		p := fset.Position(f.Pos()).Filename
		out, err := w.weaveFile(fset, f, srcs[p], filepath.Join(rel, filepath.Base(p)), opt, info)
		if err != nil {
			return err
		}
		if out != nil {
			if err := os.WriteFile(p, out, 0o644); err != nil {
				return err
			}
		}
		w.Stats.Files++
	}
	return nil
}

func importName(f *ast.File, path string) (string, bool) {
	for _, im := range f.Imports {
		if strings.Trim(im.Path.Value, "\"`") == path {
			if im.Name != nil {
				return im.Name.Name, true
			}
			return path[strings.LastIndex(path, "/")+1:], true
		}
	}
	return "", false
}

func (w *Weaver) weaveFile(fset *token.FileSet, f *ast.File, src []byte, rel string, opt Options, info *types.Info) ([]byte, error) {
	var edits []edit
	tf := fset.File(f.Pos())
	off := func(p token.Pos) int { return tf.Offset(p) }
	add := func(o, del int, text string) {
		edits = append(edits, edit{o, del, text, len(edits)})
	}
	newSite := func(pos token.Pos, kind, fn string) int {
		id := len(w.Sites)
		w.Sites = append(w.Sites, Site{ID: id, File: rel, Line: fset.Position(pos).Line, Kind: kind, Func: fn})
		w.Stats.YieldSites++
		return id
	}
	yieldAt := func(body *ast.BlockStmt, kind, fn string) {
		if body == nil || !opt.Yields {
			return
		}
		id := newSite(body.Lbrace, kind, fn)
		add(off(body.Lbrace)+1, 0, fmt.Sprintf(" %s.Yield(%d); ", alias, id))
	}
	syncName, hasSync := importName(f, "sync")
	osName, hasOS := importName(f, "os")
	fmtName, hasFmt := importName(f, "fmt")
	usedSync, usedOS := false, false
	runtimeName, hasRuntime := importName(f, "runtime")
	usedRuntime := false
	mapsName, hasMaps := importName(f, "maps")
	usedMaps := false
	timeName, hasTime := importName(f, "time")
	usedTime := false

	var funcStack []string
	// statement-level yields: before every statement of a block except the
	// first one (the block's own entry yield, if any, covers it) and except
	// declarations (a call between a label and a declaration or in front of a
	// declaration that a goto jumps over changes nothing, but keep it simple)
	stmtYields := func(list []ast.Stmt, lbrace token.Pos) {
		if !opt.StmtYields || !opt.Yields {
			return
		}
		fn := ""
		if len(funcStack) > 0 {
			fn = funcStack[len(funcStack)-1]
		}
		for i, st := range list {
			if i == 0 && lbrace != token.NoPos {
				continue
			}
			switch x := st.(type) {
			case *ast.DeclStmt, *ast.EmptyStmt, *ast.CaseClause, *ast.CommClause:
				continue
			case *ast.BranchStmt:
				if x.Tok == token.FALLTHROUGH {
					continue
				}
			}
			pos := st.Pos()
			id := newSite(pos, "stmt", fn)
			add(off(pos), 0, fmt.Sprintf("%s.Yield(%d); ", alias, id))
		}
	}
	var declaresMemoization []bool
	var visit func(n ast.Node) bool
	visit = func(n ast.Node) bool {
		switch x := n.(type) {
		case *ast.FuncDecl:
			name := x.Name.Name
			if x.Recv != nil && len(x.Recv.List) > 0 {
				name = recvName(x.Recv.List[0].Type) + "." + name
			}
			ast.Inspect(x.Type, visit)
			yieldAt(x.Body, "func", name)
			funcStack = append(funcStack, name)
			has := false
			if x.Body != nil {
				ast.Inspect(x.Body, func(m ast.Node) bool {
					if vs, ok := m.(*ast.ValueSpec); ok {
						for _, id := range vs.Names {
							if id.Name == "memoization" {
								has = true
							}
						}
					}
					return true
				})
			}
			declaresMemoization = append(declaresMemoization, has)
			if x.Body != nil {
				ast.Inspect(x.Body, visit)
			}
			funcStack = funcStack[:len(funcStack)-1]
			declaresMemoization = declaresMemoization[:len(declaresMemoization)-1]
			return false
		case *ast.BlockStmt:
			stmtYields(x.List, x.Lbrace)
		case *ast.CaseClause:
			stmtYields(x.Body, token.NoPos)
		case *ast.CommClause:
			stmtYields(x.Body, token.NoPos)
		case *ast.FuncLit:
			fn := ""
			if len(funcStack) > 0 {
				fn = funcStack[len(funcStack)-1]
			}
			yieldAt(x.Body, "closure", fn)
		case *ast.ForStmt:
			fn := ""
			if len(funcStack) > 0 {
				fn = funcStack[len(funcStack)-1]
			}
			yieldAt(x.Body, "loop", fn)
		case *ast.RangeStmt:
			fn := ""
			if len(funcStack) > 0 {
				fn = funcStack[len(funcStack)-1]
			}
			yieldAt(x.Body, "loop", fn)
			if opt.MapRanges && info != nil {
				if tv, ok := info.Types[x.X]; ok && tv.Type != nil {
					if _, isMap := tv.Type.Underlying().(*types.Map); isMap {
						w.Stats.MapRangesSeen++
						add(off(x.X.Pos()), 0, alias+".MapSeq(")
						add(off(x.X.End()), 0, ")")
						w.Stats.MapRangesWoven++
					}
				}
			}
		case *ast.AssignStmt:
			if opt.MemoFaults && len(x.Lhs) == 1 && len(x.Rhs) == 1 {
				if id, ok := x.Lhs[0].(*ast.Ident); ok && id.Name == "memoize" {
					if fl, ok := x.Rhs[0].(*ast.FuncLit); ok && fl.Body != nil {
						text := ""
						if len(declaresMemoization) > 0 && declaresMemoization[len(declaresMemoization)-1] {
							text += fmt.Sprintf(" if %s.MemoFault(3) { clear(memoization) }; ", alias)
							w.Stats.MemoEvictPoint++
						}
						if fl.Type.Results == nil || len(fl.Type.Results.List) == 0 {
							text += fmt.Sprintf(" if %s.MemoFault(1) { return }; ", alias)
							w.Stats.MemoDropPoints++
						}
						if text != "" {
							add(off(fl.Body.Lbrace)+1, 0, text)
						}
					}
				}
			}
		case *ast.IfStmt:
			if opt.MemoFaults && x.Init != nil {
				if as, ok := x.Init.(*ast.AssignStmt); ok && as.Tok == token.DEFINE && len(as.Lhs) == 2 && len(as.Rhs) == 1 {
					if ix, ok := as.Rhs[0].(*ast.IndexExpr); ok {
						if base, ok := ix.X.(*ast.Ident); ok && base.Name == "memoization" {
							if okid, ok := as.Lhs[1].(*ast.Ident); ok {
								if c, ok := x.Cond.(*ast.Ident); ok && c.Name == okid.Name {
									add(off(x.Cond.End()), 0, fmt.Sprintf(" && !%s.MemoFault(2)", alias))
									w.Stats.MemoMissPoints++
								}
							}
						}
					}
				}
			}
		case *ast.SelectorExpr:
			if id, ok := x.X.(*ast.Ident); ok {
				if opt.SyncTypes && hasSync && id.Name == syncName {
					switch x.Sel.Name {
					case "Mutex", "RWMutex", "Once", "Pool", "OnceFunc", "OnceValue", "OnceValues":
						add(off(x.Pos()), off(x.End())-off(x.Pos()), alias+"."+x.Sel.Name)
						w.Stats.SyncReplaced++
						usedSync = true
					}
				}
			}
		case *ast.CallExpr:
			if opt.MapRanges && hasMaps {
				if fun, ok := x.Fun.(*ast.SelectorExpr); ok {
					if pk, ok := fun.X.(*ast.Ident); ok && pk.Name == mapsName && len(x.Args) == 1 {
						switch fun.Sel.Name {
						case "Keys", "Values", "All":
							// the iteration order of maps.Keys(m) etc. is the map's
							add(off(x.Fun.Pos()), off(x.Fun.End())-off(x.Fun.Pos()), alias+".Map"+fun.Sel.Name)
							w.Stats.MapRangesWoven++
							w.Stats.MapRangesSeen++
							usedMaps = true
						}
					}
				}
			}
			if opt.Clock && hasTime {
				if fun, ok := x.Fun.(*ast.SelectorExpr); ok {
					if pk, ok := fun.X.(*ast.Ident); ok && pk.Name == timeName {
						if (fun.Sel.Name == "Now" && len(x.Args) == 0) || (fun.Sel.Name == "Since" && len(x.Args) == 1) || (fun.Sel.Name == "Until" && len(x.Args) == 1) {
							add(off(x.Fun.Pos()), off(x.Fun.End())-off(x.Fun.Pos()), alias+"."+fun.Sel.Name)
							w.Stats.ClockReplaced++
							usedTime = true
						}
					}
				}
			}
			if opt.Procs && hasRuntime {
				if fun, ok := x.Fun.(*ast.SelectorExpr); ok {
					if pk, ok := fun.X.(*ast.Ident); ok && pk.Name == runtimeName {
						isProcs := fun.Sel.Name == "NumCPU" && len(x.Args) == 0
						if fun.Sel.Name == "GOMAXPROCS" && len(x.Args) == 1 {
							if lit, ok := x.Args[0].(*ast.BasicLit); ok && lit.Value == "0" {
								isProcs = true
							}
						}
						if isProcs {
							add(off(x.Pos()), off(x.End())-off(x.Pos()), alias+".Procs()")
							w.Stats.ProcsReplaced++
							usedRuntime = true
						}
					}
				}
			}
			if opt.Stderr && hasOS && hasFmt && len(x.Args) > 0 {
				if fun, ok := x.Fun.(*ast.SelectorExpr); ok {
					if pk, ok := fun.X.(*ast.Ident); ok && pk.Name == fmtName && strings.HasPrefix(fun.Sel.Name, "Fprint") {
						if a0, ok := x.Args[0].(*ast.SelectorExpr); ok {
							if pk2, ok := a0.X.(*ast.Ident); ok && pk2.Name == osName && a0.Sel.Name == "Stderr" {
								add(off(a0.Pos()), off(a0.End())-off(a0.Pos()), alias+".Stderr()")
								w.Stats.StderrReplaced++
								usedOS = true
							}
						}
					}
				}
			}
		}
		return true
	}
	ast.Inspect(f, visit)
	if len(edits) == 0 {
		return nil, nil
	}
	// import right after the package clause, on the same line
	add(off(f.Name.End()), 0, fmt.Sprintf("; import %s %q", alias, SimrtPath))
	tail := ""
	if usedSync {
		tail += fmt.Sprintf("\nvar _ %s.WaitGroup\n", syncName)
	}
	if usedOS {
		tail += fmt.Sprintf("\nvar _ = %s.Stderr\n", osName)
	}
	if usedRuntime {
		tail += fmt.Sprintf("\nvar _ = %s.NumCPU\n", runtimeName)
	}
	if usedTime {
		tail += fmt.Sprintf("\nvar _ = %s.Now\n", timeName)
	}
	if usedMaps {
		tail += fmt.Sprintf("\nvar _ = %s.Keys[map[int]int]\n", mapsName)
	}
	sort.SliceStable(edits, func(i, j int) bool {
		if edits[i].off != edits[j].off {
			return edits[i].off < edits[j].off
		}
		return edits[i].seq < edits[j].seq
	})
	var out bytes.Buffer
	pos := 0
	for _, e := range edits {
		if e.off < pos {
			return nil, fmt.Errorf("weave: overlapping edits in %s", rel)
		}
		out.Write(src[pos:e.off])
		out.WriteString(e.text)
		pos = e.off + e.del
	}
	out.Write(src[pos:])
	out.WriteString(tail)
	return out.Bytes(), nil
}

func recvName(e ast.Expr) string {
	switch x := e.(type) {
	case *ast.StarExpr:
		return recvName(x.X)
	case *ast.Ident:
		return x.Name
	case *ast.IndexExpr:
		return recvName(x.X)
	case *ast.IndexListExpr:
		return recvName(x.X)
	}
	return "?"
}
