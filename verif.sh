#!/bin/sh
# Entry point of every check: builds the orchestrator from the sources on
# disk (offline, standard library only) and runs it.
set -e
cd "$(dirname "$0")"
export GOFLAGS=-mod=mod GOPROXY=off GOSUMDB=off GOTOOLCHAIN=local GOWORK=off
GO=${VERIF_GO:-go1.26.8}
# go/build (used by the weaver's type checker) runs plain `go`: make that the same toolchain
if [ -d /opt/veriftools/go1.26.8/bin ]; then PATH=/opt/veriftools/go1.26.8/bin:$PATH; export PATH; fi
mkdir -p bin
if ! $GO build -o bin/verif ./cmd/verif 2>bin/build.log; then
  cat bin/build.log >&2
  echo "verif.sh: cannot build the orchestrator" >&2
  exit 2
fi
exec ./bin/verif "$@"
