//go:build zzsim

// Package parsim is the simulation runner for emitted parsers (C06, C12,
// C14). It is built as a test binary because testing/synctest needs a
// *testing.T; the orchestrator passes a job file in VERIF_JOB and reads the
// result from VERIF_OUT.
package parsim

import (
	"encoding/json"
	"fmt"
	"math"
	"os"
	"runtime"
	"runtime/debug"
	"runtime/metrics"
	"slices"
	"strings"
	"sync"
	"testing"
	"testing/synctest"
	"time"

	"github.com/pointlander/peg/zzsim/simrt"
)

// ---------- protocol (mirrored in /verif/internal/orch/parsim.go) ----------

type GrammarInfo struct {
	Name    string   `json:"name"`
	Kind    string   `json:"kind"` // generated | fixed | shipped
	Base    string   `json:"base"` // name without the option suffix
	Opts    []string `json:"opts"`
	Inputs  []string `json:"inputs"`
	Text    string   `json:"text"`
	HasHost bool     `json:"has_host"`
	Entries []int    `json:"entries"` // rule numbers usable as entry point (besides the default)
	Heavy   bool     `json:"heavy"`   // large real-world grammar: restricted configurations
}

type Step struct {
	Input     string `json:"input"`
	Entry     int    `json:"entry"` // <0: default
	Exec      bool   `json:"exec"`
	AST       bool   `json:"ast"`
	Tree      bool   `json:"tree"`
	Pretty    bool   `json:"pretty,omitempty"`  // also print the tree through PrettyPrint
	Reparse   int    `json:"reparse,omitempty"` // after the step's observations: Parse(Reparse-2) once more WITHOUT Reset (1 = default entry) and observe again
	Reinit    bool   `json:"reinit,omitempty"`  // this step calls Init again on the same instance (new Buffer, same options) instead of Reset
	GC        bool   `json:"gc,omitempty"`      // run a garbage collection before this step (unwoven race tier only)
	AbortPred int    `json:"abort_pred,omitempty"`
	AbortAct  int    `json:"abort_act,omitempty"`
	// selectors: resolved at run time into AbortPred/AbortAct = 1 + sel mod
	// (number of callbacks the fresh parse of this input makes), so that the
	// abort lands inside the operation
	AbortPredSel uint32 `json:"abort_pred_sel,omitempty"`
	AbortActSel  uint32 `json:"abort_act_sel,omitempty"`
}

type Prog struct {
	Grammar string        `json:"grammar"`
	Cfg     simrt.InstCfg `json:"cfg"`
	Steps   []Step        `json:"steps"`
	// Marathon: a very long history on one instance, described instead of
	// listed: step k uses Rare[(k/Period) mod len] when k is a multiple of
	// Period and Filler otherwise, for Cycles*Period+1 steps. With U=uint16
	// and Period=65536 it probes everything that counts operations in a
	// value of type U (the property allows any U the input fits into).
	Marathon *Marathon `json:"marathon,omitempty"`
}

// Sweep: token buffers grow and are replayed into at power-of-two sizes and
// at the Size option; a mistake there shows only when a multi-token write
// straddles the boundary, i.e. for one alignment in many. A sweep takes a
// repeatable unit, measures how many tokens a repetition adds, and runs every
// repetition count in a window around the one at which the token count
// reaches the boundary.
type Sweep struct {
	Prefix   string `json:"prefix"`
	Unit     string `json:"unit"`
	Tail     string `json:"tail"`
	Boundary int    `json:"boundary"`
	Width    int    `json:"width"`
}

// sweepInputs probes the token yield of the unit and returns the inputs of
// the window (nil if the unit does not repeat productively).
func sweepInputs(g simrt.Grammar, cfg simrt.InstCfg, sw *Sweep) []string {
	count := func(n int) int {
		in := strings.Repeat(sw.Unit, n) + sw.Tail
		inst := g.New(simrt.InstCfg{U: 2}, in)
		var ntok int
		func() {
			defer func() { recover() }()
			if ok, _, _ := inst.Parse(-1); ok {
				ntok = len(inst.Tokens())
			}
		}()
		return ntok
	}
	t8, t24 := count(8), count(24)
	per := (t24 - t8) / 16
	if per < 1 || t8 == 0 {
		return nil
	}
	// Memoisation stores a copy of the tokens of every rule application; for
	// deeply (e.g. right-) recursive derivations that is quadratic in the
	// input. Where the syntax tree gets deeper with the repetition count only
	// the small boundaries are swept.
	if d1, d2 := astDepth(g, strings.Repeat(sw.Unit, 20)+sw.Tail), astDepth(g, strings.Repeat(sw.Unit, 60)+sw.Tail); (d1 == 0 || d2 > d1+2) && sw.Boundary > 1024 {
		sw.Boundary = 1024
	}
	// Enough repetitions to carry the token count past the boundary, and a
	// growing number of copies of the prefix unit in front: every extra copy
	// shifts all later token indices, so successive inputs approach the same
	// boundary from successive alignments (the repetition count is varied a
	// little as well, for what is written after the repeated block).
	n0 := (sw.Boundary-t8)/per + 8 + 4
	if n0 < 1 {
		n0 = 1
	}
	if (n0+8)*len(sw.Unit)+sw.Width*len(sw.Prefix) > 400_000 {
		return nil
	}
	var out []string
	for j := 0; j < sw.Width; j++ {
		out = append(out, strings.Repeat(sw.Prefix, j)+strings.Repeat(sw.Unit, n0+j%5)+sw.Tail)
	}
	return out
}

var thoroughTier bool

func genSweep(r *simrt.SplitMix64) (*GrammarInfo, *Sweep) {
	if len(repeatableNames) == 0 {
		return nil, nil
	}
	g := byName[repeatableNames[r.Intn(len(repeatableNames))]]
	units := repeatable[g.Name]
	sw := &Sweep{Unit: units[r.Intn(len(units))], Boundary: []int{256, 1024, 4096, 4096, 4096, 8192, 8192, 8192, 1024, 4096, 8192, 32768}[r.Intn(12)], Width: 32}
	if sw.Boundary > 8192 && !thoroughTier {
		sw.Boundary = 4096
	}
	if r.Chance(1, 2) {
		sw.Unit += units[r.Intn(len(units))]
	}
	sw.Prefix = units[r.Intn(len(units))]
	if r.Chance(1, 2) {
		sw.Tail = units[r.Intn(len(units))]
	}
	return g, sw
}

type Marathon struct {
	Period int      `json:"period"`
	Cycles int      `json:"cycles"`
	Rare   []string `json:"rare"`
	Filler string   `json:"filler"`
}

type Case struct {
	Mode string `json:"mode"` // c06 | c12 | c14
	Run  int    `json:"run"`
	// c06
	Grammar   string             `json:"grammar,omitempty"`
	Input     string             `json:"input,omitempty"`
	Entry     int                `json:"entry,omitempty"`
	Cfg       simrt.InstCfg      `json:"cfg"`
	FaultTape []uint32           `json:"fault_tape,omitempty"`
	FaultCfg  simrt.MemoFaultCfg `json:"fault_cfg"`
	Reparse   int                `json:"reparse,omitempty"` // c06: see Step.Reparse
	// c06 on reused instances: a memoising and a non-memoising instance step
	// through the same history (Buffer=…; Reset(); Parse()) side by side
	History  []string  `json:"history,omitempty"`
	Marathon *Marathon `json:"c06_marathon,omitempty"`
	// boundary sweep (c06 and c12): inputs Prefix×j + Unit×n + Tail, j = 0…Width-1,
	// n large enough for the token count to cross Boundary
	Sweep *Sweep `json:"sweep,omitempty"`
	Giant bool   `json:"giant,omitempty"` // c12: the history contains a giant input (own step budget)
	// c12
	Prog *Prog `json:"prog,omitempty"`
	// c14
	Clients   []Prog   `json:"clients,omitempty"`
	SchedTape []uint32 `json:"sched_tape,omitempty"`
	ActiveNum int      `json:"active_num,omitempty"`
	ActiveDen int      `json:"active_den,omitempty"`
	SiteSeed  uint64   `json:"site_seed,omitempty"`
	Budget    uint32   `json:"budget,omitempty"`
	Race      bool     `json:"race,omitempty"` // free-running goroutines instead of the scheduler (race tier)
	// Cold: the concurrent run comes first and the solo references are
	// computed afterwards, so that, when this is the first case of a process,
	// the clients meet every lazily initialised package-level state cold
	Cold bool `json:"cold,omitempty"`
	// freeze strategy, see simrt.Config
	FreezeClient int  `json:"freeze_client,omitempty"`
	FreezeAt     int  `json:"freeze_at,omitempty"`
	FreezeSync   bool `json:"freeze_sync,omitempty"`
	// handoff strategy (see simrt.Config)
	HandoffWaiter int `json:"handoff_waiter,omitempty"`
	HandoffHolder int `json:"handoff_holder,omitempty"`
	HandoffAfter  int `json:"handoff_after,omitempty"`
}

type Job struct {
	Mode     string `json:"mode"`
	Seed     uint64 `json:"seed"`
	From     int    `json:"from"`
	To       int    `json:"to"`
	Explicit []Case `json:"explicit,omitempty"`
	Workload string `json:"workload"` // path of workload.json
	Race     bool   `json:"race"`
	KeepLog  bool   `json:"keep_log"`
	MaxViol  int    `json:"max_viol"`
	RefSigs  bool   `json:"ref_sigs"` // return the per-case digests of the reference observations
	// RefOnly: compute only the reference observations (unwoven validation
	// build, which has no step budget); cases listed in Skip are not run at all
	Thorough bool  `json:"thorough"` // thorough tier: the costly variants (32 768-token boundary sweeps) are included
	RefOnly  bool  `json:"ref_only"`
	Skip     []int `json:"skip,omitempty"`
}

type Outcome struct {
	Class      string         `json:"class"` // "" held; otherwise violation class
	Detail     string         `json:"detail,omitempty"`
	Skipped    string         `json:"skipped,omitempty"` // reason the case was inconclusive
	Nontrivial bool           `json:"nontrivial"`
	Sig        uint64         `json:"sig"` // digest identifying the explored case/interleaving
	Stats      map[string]int `json:"stats,omitempty"`
	Log        []simrt.Event  `json:"log,omitempty"`
	Adjacent   []uint64       `json:"adjacent,omitempty"`
	Resolved   *Prog          `json:"resolved,omitempty"` // c12: the program with abort selectors resolved
	RefSig     uint64         `json:"ref_sig"`            // digest of the reference observations (equal in woven and unwoven builds)
}

type ViolationReport struct {
	Case    Case    `json:"case"`
	Outcome Outcome `json:"outcome"`
}

type JobResult struct {
	Runs       int               `json:"runs"`
	Skipped    map[string]int    `json:"skipped"`
	Nontrivial int               `json:"nontrivial"`
	Sigs       []uint64          `json:"sigs"` // digests of non-trivial cases
	Stats      map[string]int    `json:"stats"`
	Violations []ViolationReport `json:"violations"`
	Samples    []Case            `json:"samples"`
	Adjacent   []uint64          `json:"adjacent"`
	Outcomes   []Outcome         `json:"outcomes,omitempty"` // for explicit cases
	GoidFast   bool              `json:"goid_fast"`
	NSites     int               `json:"nsites"`
	RefSigs    []uint64          `json:"ref_sigs,omitempty"`
}

var workload []GrammarInfo
var byName = map[string]*GrammarInfo{}

// repeatable[g] = short pool inputs u of grammar g such that u×n is accepted
// with a token count that grows with n (found once at start-up); boundary
// sweeps draw their grammar and unit from here
var repeatable = map[string][]string{}
var repeatableNames []string

// linear[g] ⊆ repeatable[g]: units for which four times the repetitions cost
// about four times the allocation (memoisation copies the tokens of every rule
// application, which is quadratic for deeply recursive derivations); only
// these are blown up to tens or hundreds of thousands of runes
var linear = map[string][]string{}
var linearNames []string

// unitTokens[g+"\x00"+u]: tokens added by one more repetition of u
var unitTokens = map[string]int{}

// astDepth parses in and returns the nesting depth of its syntax tree (0 if
// the parse fails).
func astDepth(g simrt.Grammar, in string) (depth int) {
	defer func() {
		if recover() != nil {
			depth = 0
		}
	}()
	inst := g.New(simrt.InstCfg{U: 2}, in)
	var ok bool
	_, over := counted(2_000_000, func() { ok, _, _ = inst.Parse(-1) })
	if !ok || over {
		return 0
	}
	d := 0
	for _, ch := range inst.ASTString() {
		switch ch {
		case '(':
			d++
			depth = max(depth, d)
		case ')':
			d--
		}
	}
	return depth
}

func findRepeatable() {
	for i := range workload {
		gi := &workload[i]
		if gi.Heavy {
			continue
		}
		g := simrt.LookupGrammar(gi.Name)
		tried := 0
		for _, u := range gi.Inputs {
			if len(u) == 0 || len(u) > 12 {
				continue
			}
			if tried++; tried > 24 {
				break
			}
			count := func(n int) (ntok int) {
				defer func() { recover() }()
				inst := g.New(simrt.InstCfg{U: 2}, strings.Repeat(u, n))
				var ok bool
				_, over := counted(200_000, func() { ok, _, _ = inst.Parse(-1) })
				if ok && !over {
					ntok = len(inst.Tokens())
				}
				return
			}
			if a, b := count(6), count(12); a > 0 && b > a {
				repeatable[gi.Name] = append(repeatable[gi.Name], u)
				// deterministic proxy for "memoisation cost is linear": the
				// syntax tree of u×n does not get deeper with n (repetition
				// by * or +, not by recursion)
				if d1, d2 := astDepth(g, strings.Repeat(u, 20)), astDepth(g, strings.Repeat(u, 60)); d1 > 0 && d2 <= d1+2 {
					linear[gi.Name] = append(linear[gi.Name], u)
					unitTokens[gi.Name+"\x00"+u] = max(1, (b-a)/6)
				}
			}
		}
		if len(repeatable[gi.Name]) > 0 {
			repeatableNames = append(repeatableNames, gi.Name)
		}
		if len(linear[gi.Name]) > 0 {
			linearNames = append(linearNames, gi.Name)
		}
	}
	slices.Sort(repeatableNames)
	slices.Sort(linearNames)
}

// ---------- observations ----------

type Obs struct {
	Aborted bool
	Budget  bool
	OK      bool
	Tokens  string
	ErrTok  string
	ErrMsg  string
	Trace   string
	AST     string
	Tree    string
	Panic   string
	// callback counts of the operation (not part of the comparison)
	Preds, Acts int
}

func (o Obs) String() string {
	switch {
	case o.Aborted:
		return "aborted"
	case o.Budget:
		return "budget"
	case o.Panic != "":
		return "panic: " + o.Panic
	case o.OK:
		return fmt.Sprintf("ok tokens=%s trace=[%s] ast=%s tree=%q", o.Tokens, o.Trace, o.AST, o.Tree)
	}
	return fmt.Sprintf("fail errtok=%s errmsg=%q", o.ErrTok, o.ErrMsg)
}

func tokString(ts []simrt.Tok) string {
	var sb strings.Builder
	for _, t := range ts {
		fmt.Fprintf(&sb, "(%d %d %d)", t.Rule, t.Begin, t.End)
	}
	return sb.String()
}

// doStep performs one step on an instance and observes the result. Injected
// aborts and budget overruns are reported, real panics are captured.
func doStep(inst simrt.Instance, st Step) (o Obs) {
	h := inst.Host()
	h.ResetOp()
	h.AbortPred, h.AbortAct = st.AbortPred, st.AbortAct
	defer func() {
		if r := recover(); r != nil {
			switch x := r.(type) {
			case simrt.Abort:
				o = Obs{Aborted: true}
			case simrt.ErrBudget:
				panic(x)
			default:
				o = Obs{Panic: fmt.Sprint(r) + " @ " + firstFrames(debug.Stack())}
			}
		}
	}()
	defer func() { o.Preds, o.Acts = h.PredCalls, h.ActCalls }()
	ok, et, em := inst.Parse(st.Entry)
	o.OK = ok
	if !ok {
		o.ErrTok = fmt.Sprintf("(%d %d %d)", et.Rule, et.Begin, et.End)
		o.ErrMsg = em
		if st.Reparse != 0 {
			reparse(inst, st, &o)
			o.ErrMsg += o.Tree
			o.Tree = ""
		}
		return
	}
	o.Tokens = tokString(inst.Tokens())
	if st.Exec {
		inst.Execute()
		o.Trace = h.TraceString()
	}
	if st.AST {
		o.AST = inst.ASTString()
	}
	if st.Tree {
		o.Tree = inst.TreeString()
	}
	if st.Pretty {
		if pp, ok := inst.(interface{ PrettyTreeString() string }); ok {
			o.Tree += "\n--pretty--\n" + pp.PrettyTreeString()
		}
	}
	reparse(inst, st, &o)
	return
}

// reparse: a second Parse on the same buffer without Reset (a caller falling
// back to another entry rule). Whatever that means, it must mean the same for
// the two parsers a check compares.
func reparse(inst simrt.Instance, st Step, o *Obs) {
	if st.Reparse == 0 {
		return
	}
	ok, et, em := inst.Parse(st.Reparse - 2)
	if ok {
		o.Tree += fmt.Sprintf("\n--reparse(%d)-- ok tokens=%s", st.Reparse-2, tokString(inst.Tokens()))
	} else {
		o.Tree += fmt.Sprintf("\n--reparse(%d)-- fail errtok=(%d %d %d) errmsg=%q", st.Reparse-2, et.Rule, et.Begin, et.End, em)
	}
}

func firstFrames(stack []byte) string {
	lines := strings.Split(string(stack), "\n")
	var out []string
	for _, l := range lines {
		l = strings.TrimSpace(l)
		if strings.Contains(l, ".go:") && !strings.Contains(l, "runtime/") && !strings.Contains(l, "parsim_test.go") {
			if i := strings.LastIndexByte(l, '/'); i >= 0 {
				l = l[i+1:]
			}
			if j := strings.IndexByte(l, ' '); j >= 0 {
				l = l[:j]
			}
			out = append(out, l)
			if len(out) == 3 {
				break
			}
		}
	}
	return strings.Join(out, " < ")
}

// runProg runs a client program on one long-lived instance.
func runProg(p Prog) []Obs {
	g := simrt.LookupGrammar(p.Grammar)
	var inst simrt.Instance
	var out []Obs
	for k, st := range p.Steps {
		if st.GC && simrt.NSites == 0 {
			runtime.GC()
			runtime.Gosched()
		}
		switch {
		case k == 0:
			inst = g.New(p.Cfg, st.Input)
		case st.Reinit:
			inst.SetBuffer(st.Input)
			if ri, ok := inst.(interface{ Reinit(simrt.InstCfg) }); ok {
				ri.Reinit(p.Cfg)
			} else {
				inst.Reset()
			}
		default:
			inst.SetBuffer(st.Input)
			inst.Reset()
		}
		out = append(out, doStep(inst, st))
	}
	return out
}

// runFresh runs step k of p alone on a freshly constructed instance with the
// default knobs (uint32, no Size option) and the same memoisation setting.
func runFresh(p Prog, k int) Obs {
	g := simrt.LookupGrammar(p.Grammar)
	st := p.Steps[k]
	st.AbortPred, st.AbortAct, st.AbortPredSel, st.AbortActSel = 0, 0, 0, 0
	inst := g.New(simrt.InstCfg{NoMemo: p.Cfg.NoMemo, Pretty: p.Cfg.Pretty}, st.Input)
	return doStep(inst, st)
}

const absBudget = 3_000_000

func counted(limit uint64, f func()) (steps uint64, over bool) {
	defer func() {
		if r := recover(); r != nil {
			if _, ok := r.(simrt.ErrBudget); ok {
				over = true
				return
			}
			panic(r)
		}
	}()
	steps = simrt.CountSteps(limit, f)
	return
}

// ---------- C06 ----------

// runC06History: the memoising and the non-memoising parser are both
// long-lived and reused through Reset; they must agree at every step.
func runC06History(c Case) (out Outcome) {
	out.Stats = map[string]int{}
	g := simrt.LookupGrammar(c.Grammar)
	if g == nil {
		out.Skipped = "unknown grammar " + c.Grammar
		return
	}
	total := len(c.History)
	input := func(k int) (string, bool) { return c.History[k], true }
	if m := c.Marathon; m != nil {
		if m.Period < 1 || len(m.Rare) == 0 {
			out.Skipped = "bad marathon"
			return
		}
		total = m.Cycles*m.Period + 1
		input = func(k int) (string, bool) {
			if k%m.Period == 0 {
				return m.Rare[(k/m.Period)%len(m.Rare)], true
			}
			return m.Filler, k%m.Period == 1 || k%1031 == 0
		}
	}
	refCfg, subCfg := c.Cfg, c.Cfg
	refCfg.NoMemo, subCfg.NoMemo = true, false
	var ref, sub simrt.Instance
	h := simrt.NewHash().AddString(c.Grammar)
	simrt.ArmMemoFaults(c.FaultTape, c.FaultCfg)
	defer simrt.DisarmMemoFaults()
	_, over := counted(uint64(total)*40000+2*absBudget, func() {
		for k := 0; k < total; k++ {
			in, check := input(k)
			st := Step{Input: in, Entry: -1, Exec: check, AST: check, Tree: check}
			if k == 0 {
				ref, sub = g.New(refCfg, in), g.New(subCfg, in)
			} else {
				ref.SetBuffer(in)
				ref.Reset()
				sub.SetBuffer(in)
				sub.Reset()
			}
			a, b := doStep(ref, st), doStep(sub, st)
			if check && a.String() != b.String() {
				out.Class = "memo_visible"
				if b.Panic != "" && a.Panic == "" {
					out.Class = "memo_panic"
				}
				out.Detail = fmt.Sprintf("grammar %s cfg %+v, both parsers reused through Buffer=…; Reset(); Parse(): step %d of %d, input %q\n  DisableMemoize: %s\n  memoising     : %s",
					c.Grammar, c.Cfg, k+1, total, in, a, b)
				return
			}
			if k < 64 {
				h = h.AddString(in)
			}
		}
	})
	ms := simrt.Memo
	out.Stats["memo_hits"] = int(ms.Lookups)
	out.Stats["memo_stores"] = int(ms.Stores)
	out.Stats["fault_drop_store"] = int(ms.Dropped)
	out.Stats["fault_miss_lookup"] = int(ms.Missed)
	out.Stats["fault_evict_all"] = int(ms.Evict)
	out.Stats["reuse_histories"] = 1
	out.Stats["reuse_history_steps"] = total
	if over && out.Class == "" {
		out.Skipped = "history exceeds the step budget"
		return
	}
	out.Nontrivial = true
	out.Sig = uint64(h.AddUint(uint64(total)))
	return
}

// runC06Sweep: the plain memo / no-memo comparison on every input of a
// boundary sweep.
func runC06Sweep(c Case) (out Outcome) {
	out.Stats = map[string]int{}
	g := simrt.LookupGrammar(c.Grammar)
	if g == nil {
		out.Skipped = "unknown grammar " + c.Grammar
		return
	}
	var inputs []string
	_, over := counted(absBudget, func() { inputs = sweepInputs(g, c.Cfg, c.Sweep) })
	if over || len(inputs) == 0 {
		out.Skipped = "sweep unit does not repeat"
		return
	}
	for _, in := range inputs {
		d := c
		d.Sweep, d.Input = nil, in
		o := runC06(d)
		for k, v := range o.Stats {
			out.Stats[k] += v
		}
		if o.Class != "" {
			o.Stats = out.Stats
			o.Detail = fmt.Sprintf("boundary sweep (prefix %q, unit %q, tail %q, token boundary %d): %d-byte input\n", c.Sweep.Prefix, c.Sweep.Unit, c.Sweep.Tail, c.Sweep.Boundary, len(in)) + clip(o.Detail, 1500)
			return o
		}
		if o.Skipped != "" {
			out.Skipped = o.Skipped
			return
		}
	}
	out.Stats["boundary_sweeps"] = 1
	out.Stats["boundary_sweep_inputs"] = len(inputs)
	out.Nontrivial = true
	out.Sig = uint64(simrt.NewHash().AddString(c.Grammar).AddString(c.Sweep.Unit).AddString(c.Sweep.Prefix).AddUint(uint64(c.Sweep.Boundary)))
	return
}

func clip(s string, n int) string {
	if len(s) > n {
		return s[:n] + "…"
	}
	return s
}

func runC06(c Case) (out Outcome) {
	if c.Sweep != nil {
		return runC06Sweep(c)
	}
	if len(c.History) > 0 || c.Marathon != nil {
		return runC06History(c)
	}
	out.Stats = map[string]int{}
	g := simrt.LookupGrammar(c.Grammar)
	if g == nil {
		out.Skipped = "unknown grammar " + c.Grammar
		return
	}
	st := Step{Input: c.Input, Entry: c.Entry, Exec: true, AST: true, Tree: true, Reparse: c.Reparse}
	refCfg := c.Cfg
	refCfg.NoMemo = true
	var ref, sub Obs
	refSteps, over := counted(absBudget, func() { ref = doStep(g.New(refCfg, c.Input), st) })
	if over {
		out.Skipped = "reference exceeds the step budget"
		return
	}
	out.RefSig = uint64(simrt.NewHash().AddString(ref.String()))
	subCfg := c.Cfg
	subCfg.NoMemo = false
	simrt.ArmMemoFaults(c.FaultTape, c.FaultCfg)
	_, over = counted(100*refSteps+100_000, func() { sub = doStep(g.New(subCfg, c.Input), st) })
	ms := simrt.Memo
	simrt.DisarmMemoFaults()
	out.Stats["memo_stores"] = int(ms.Stores)
	out.Stats["memo_hits"] = int(ms.Lookups)
	out.Stats["fault_drop_store"] = int(ms.Dropped)
	out.Stats["fault_miss_lookup"] = int(ms.Missed)
	out.Stats["fault_evict_all"] = int(ms.Evict)
	out.Stats["ref_steps"] = int(refSteps)
	if ms.Lookups > 0 && ms.Dropped > 0 {
		out.Stats["probe_hit_in_run_with_dropped_store"] = 1
	}
	if ref.OK {
		out.Stats["accepted"] = 1
	} else {
		out.Stats["rejected"] = 1
	}
	out.Nontrivial = ms.Lookups > 0 || ms.Dropped+ms.Missed+ms.Evict > 0
	h := simrt.NewHash().AddString(c.Grammar).AddString(c.Input).AddUint(uint64(c.Entry + 1))
	h = h.AddUint(ms.Stores).AddUint(ms.Lookups).AddUint(ms.Dropped).AddUint(ms.Missed).AddUint(ms.Evict)
	out.Sig = uint64(h)
	if over {
		out.Class = "divergence"
		out.Detail = fmt.Sprintf("memoising parser did not finish within 100x the steps of the non-memoising one (%d)", refSteps)
		return
	}
	if ref.String() != sub.String() {
		out.Class = "memo_visible"
		if sub.Panic != "" && ref.Panic == "" {
			out.Class = "memo_panic"
		}
		out.Detail = fmt.Sprintf("grammar %s input %q entry %d\n  DisableMemoize: %s\n  memoising (faults drop=%d miss=%d evict=%d fired): %s",
			c.Grammar, c.Input, c.Entry, ref, ms.Dropped, ms.Missed, ms.Evict, sub)
	}
	return
}

// ---------- C12 ----------

// runMarathon: see Prog.Marathon. The fresh reference is computed once per
// distinct input (a fresh parser's observation is a function of the input).
func runMarathon(c Case) (out Outcome) {
	out.Stats = map[string]int{}
	p := *c.Prog
	m := p.Marathon
	g := simrt.LookupGrammar(p.Grammar)
	if g == nil || m.Period < 1 || len(m.Rare) == 0 {
		out.Skipped = "bad marathon"
		return
	}
	fresh := map[string]string{}
	stepFor := func(in string, rare bool) Step {
		return Step{Input: in, Entry: -1, Exec: rare, AST: rare, Tree: rare}
	}
	want := func(st Step) string {
		k := fmt.Sprint(st.Exec, st.Input)
		if w, ok := fresh[k]; ok {
			return w
		}
		q := Prog{Grammar: p.Grammar, Cfg: p.Cfg, Steps: []Step{st}}
		w := runFresh(q, 0).String()
		fresh[k] = w
		return w
	}
	total := m.Cycles*m.Period + 1
	var inst simrt.Instance
	h := simrt.NewHash().AddString(p.Grammar).AddString(m.Filler)
	_, over := counted(uint64(total)*20000+absBudget, func() {
		for k := 0; k < total; k++ {
			rare := k%m.Period == 0
			in := m.Filler
			if rare {
				in = m.Rare[(k/m.Period)%len(m.Rare)]
			}
			st := stepFor(in, rare)
			if k == 0 {
				inst = g.New(p.Cfg, in)
			} else {
				inst.SetBuffer(in)
				inst.Reset()
			}
			got := doStep(inst, st)
			if rare || k%m.Period == 1 || k%4099 == 0 {
				if w := want(st); w != got.String() {
					out.Class = "reuse"
					out.Detail = fmt.Sprintf("grammar %s cfg %+v: step %d of a long history (input %q; every step is Buffer=…; Reset(); Parse(); rare inputs %q every %d steps, filler %q in between)\n  fresh parser : %s\n  reused parser: %s",
						p.Grammar, p.Cfg, k+1, in, m.Rare, m.Period, m.Filler, w, got)
					return
				}
			}
		}
	})
	if over && out.Class == "" {
		out.Skipped = "marathon exceeds the step budget"
		return
	}
	out.Stats["marathon_histories"] = 1
	out.Stats["marathon_steps"] = total
	out.Nontrivial = true
	out.Sig = uint64(h.AddString(strings.Join(m.Rare, "|")))
	return
}

func runC12(c Case) (out Outcome) {
	if c.Prog != nil && c.Prog.Marathon != nil {
		return runMarathon(c)
	}
	if c.Sweep != nil && c.Prog != nil {
		g := simrt.LookupGrammar(c.Prog.Grammar)
		if g == nil {
			out.Skipped = "unknown grammar"
			return
		}
		var inputs []string
		_, over := counted(absBudget, func() { inputs = sweepInputs(g, c.Prog.Cfg, c.Sweep) })
		if over || len(inputs) == 0 {
			out.Skipped = "sweep unit does not repeat"
			return
		}
		d := c
		p := *c.Prog
		p.Steps = nil
		for _, in := range inputs {
			p.Steps = append(p.Steps, Step{Input: in, Entry: -1, Exec: true, AST: true, Tree: len(in) < 20000})
		}
		d.Prog, d.Sweep = &p, nil
		out = runC12(d)
		if out.Class != "" {
			out.Detail = fmt.Sprintf("boundary sweep (prefix %q, unit %q, tail %q, token boundary %d, %d inputs)\n", c.Sweep.Prefix, c.Sweep.Unit, c.Sweep.Tail, c.Sweep.Boundary, len(inputs)) + clip(out.Detail, 1500)
			out.Resolved = nil
		}
		out.Stats["boundary_sweeps"] = 1
		out.Stats["boundary_sweep_inputs"] = len(inputs)
		return
	}
	out.Stats = map[string]int{}
	p := *c.Prog
	p.Steps = append([]Step{}, p.Steps...)
	if simrt.LookupGrammar(p.Grammar) == nil {
		out.Skipped = "unknown grammar " + p.Grammar
		return
	}
	// reference: every step alone on a fresh default instance
	wants := make([]Obs, len(p.Steps))
	stepBudget := uint64(absBudget)
	if c.Giant {
		stepBudget = 60_000_000
	}
	for k := range p.Steps {
		_, fover := counted(stepBudget, func() { wants[k] = runFresh(p, k) })
		if fover {
			out.Skipped = "fresh reference exceeds the step budget"
			return
		}
		st := &p.Steps[k]
		if st.AbortPredSel != 0 && st.AbortPred == 0 && wants[k].Preds > 0 {
			st.AbortPred = 1 + int(st.AbortPredSel%uint32(wants[k].Preds))
		}
		if st.AbortActSel != 0 && st.AbortAct == 0 && wants[k].Acts > 0 {
			st.AbortAct = 1 + int(st.AbortActSel%uint32(wants[k].Acts))
		}
		st.AbortPredSel, st.AbortActSel = 0, 0
	}
	out.Resolved = &p
	rh := simrt.NewHash()
	for _, w := range wants {
		rh = rh.AddString(w.String())
	}
	out.RefSig = uint64(rh)
	var got []Obs
	_, over := counted(stepBudget*uint64(len(p.Steps)), func() { got = runProg(p) })
	if over {
		out.Class = "reuse_divergence"
		out.Detail = "the reused instance exceeded the step budget although every fresh parse finished"
		return
	}
	h := simrt.NewHash().AddString(p.Grammar).AddUint(uint64(p.Cfg.U)).AddUint(uint64(p.Cfg.Size))
	var prev *Obs
	class := "reuse"
	for k := range p.Steps {
		want := wants[k]
		h = h.AddString(p.Steps[k].Input)
		g := got[k]
		if c.Giant && k == 2 {
			out.Stats["giant_inputs"]++
		}
		if g.Aborted {
			out.Stats["fault_abort_fired"]++
			class = "reuse_after_abort"
			h = h.AddByte(1).AddUint(uint64(p.Steps[k].AbortPred)).AddUint(uint64(p.Steps[k].AbortAct))
			out.Nontrivial = true
			prev = nil
			continue
		}
		if p.Steps[k].AbortPred+p.Steps[k].AbortAct > 0 {
			out.Stats["fault_abort_configured_not_reached"]++
		}
		if prev != nil {
			if !prev.OK && want.OK {
				out.Stats["probe_fail_then_success"]++
				out.Nontrivial = true
			}
			if prev.OK && !want.OK {
				out.Stats["probe_success_then_fail"]++
				out.Nontrivial = true
			}
		}
		if k > 0 {
			if len(p.Steps[k].Input) < len(p.Steps[k-1].Input) {
				out.Stats["probe_shrinking_input"]++
				out.Nontrivial = true
			}
			if p.Steps[k].Input == p.Steps[k-1].Input {
				out.Stats["probe_repeated_input"]++
			}
		}
		if want.String() != g.String() {
			out.Class = class
			out.Detail = fmt.Sprintf("grammar %s cfg %+v step %d/%d input %q\n  fresh parser : %s\n  reused parser: %s\n  history: %s",
				p.Grammar, p.Cfg, k+1, len(p.Steps), p.Steps[k].Input, want, g, histString(p, got))
			out.Sig = uint64(h)
			return
		}
		w := want
		prev = &w
	}
	out.Sig = uint64(h)
	return
}

func histString(p Prog, got []Obs) string {
	var sb strings.Builder
	for k, st := range p.Steps {
		r := "?"
		if k < len(got) {
			switch {
			case got[k].Aborted:
				r = "aborted"
			case got[k].OK:
				r = "ok"
			case got[k].Panic != "":
				r = "panic"
			default:
				r = "fail"
			}
		}
		fmt.Fprintf(&sb, "[%q→%s] ", st.Input, r)
	}
	return sb.String()
}

// ---------- C14 ----------

func runC14(t *testing.T, c Case, keepLog bool) (out Outcome) {
	out.Stats = map[string]int{}
	for _, p := range c.Clients {
		if simrt.LookupGrammar(p.Grammar) == nil {
			out.Skipped = "unknown grammar " + p.Grammar
			return
		}
	}
	bigClient := false
	for _, p := range c.Clients {
		for _, st := range p.Steps {
			if len(st.Input) >= 20_000 {
				bigClient = true
			}
		}
	}
	if bigClient {
		out.Stats["cases_with_a_big_input_client"] = 1
	}
	solo := make([][]Obs, len(c.Clients))
	computeSolo := func() bool {
		// each client alone
		for i, p := range c.Clients {
			budget := absBudget * uint64(len(p.Steps))
			for _, st := range p.Steps {
				budget += 2000 * uint64(len(st.Input))
			}
			_, over := counted(budget, func() { solo[i] = runProg(p) })
			if over {
				out.Skipped = "solo run exceeds the step budget"
				return false
			}
		}
		rh := simrt.NewHash()
		for i := range solo {
			for _, o := range solo[i] {
				rh = rh.AddString(o.String())
			}
		}
		out.RefSig = uint64(rh)
		// what a client observes alone must not depend on which instances
		// lived in the process before it: the solo runs once more in reverse
		// order (one case in four, and whenever a client works on a big input)
		if len(c.Clients) > 1 && !c.Race && (bigClient || c.Run%4 == 0) {
			out.Stats["solo_order_checks"] = 1
			for i := len(c.Clients) - 1; i >= 0; i-- {
				p := c.Clients[i]
				var again []Obs
				budget := absBudget * uint64(len(p.Steps))
				for _, st := range p.Steps {
					budget += 2000 * uint64(len(st.Input))
				}
				if _, over := counted(budget, func() { again = runProg(p) }); over {
					break
				}
				for k := range solo[i] {
					if k >= len(again) || solo[i][k].String() != again[k].String() {
						var g Obs
						if k < len(again) {
							g = again[k]
						}
						out.Class = "sequential_interference"
						out.Detail = fmt.Sprintf("client %d (grammar %s cfg %+v) step %d input %q, alone, observes differently depending on which instances ran (and finished) in the process before it\n  first : %s\n  second: %s",
							i, p.Grammar, p.Cfg, k+1, p.Steps[k].Input, solo[i][k], g)
						return false
					}
				}
			}
		}
		return true
	}
	if !c.Cold && !computeSolo() {
		if bigClient {
			out.Stats["cases_with_a_big_input_client_skipped"] = 1
		}
		return
	}
	together := make([][]Obs, len(c.Clients))
	var res simrt.Result
	// no client may take more steps in company than all of them are allowed alone
	var stepLimit uint64
	for _, p := range c.Clients {
		stepLimit += absBudget * uint64(len(p.Steps))
		for _, st := range p.Steps {
			stepLimit += 2000 * uint64(len(st.Input))
		}
	}
	overBudget := -1
	if c.Race {
		var wg sync.WaitGroup
		start := make(chan struct{})
		for i, p := range c.Clients {
			wg.Add(1)
			go func() {
				defer wg.Done()
				<-start
				together[i] = runProg(p)
			}()
		}
		close(start)
		wg.Wait()
		out.Nontrivial = true
	} else {
		func() {
			defer func() {
				if r := recover(); r != nil {
					out.Skipped = fmt.Sprint("bubble: ", r)
				}
			}()
			synctest.Test(t, func(t *testing.T) {
				var clients []simrt.Client
				for i, p := range c.Clients {
					clients = append(clients, simrt.Client{Name: fmt.Sprintf("c%d", i), Run: func() { together[i] = runProg(p) }})
				}
				res = simrt.Run(simrt.Config{Tape: c.SchedTape, ActiveNum: c.ActiveNum, ActiveDen: c.ActiveDen, SiteSeed: c.SiteSeed,
					Budget: c.Budget, KeepLog: keepLog, FreezeClient: c.FreezeClient, FreezeAt: c.FreezeAt, FreezeSync: c.FreezeSync,
					HandoffWaiter: c.HandoffWaiter, HandoffHolder: c.HandoffHolder, HandoffAfter: c.HandoffAfter, StepLimit: stepLimit}, clients)
			})
		}()
		if out.Skipped != "" {
			return
		}
		out.Stats["sched_steps"] = int(res.Steps)
		out.Stats["sched_switches"] = res.Switches
		out.Stats["sched_preemptions"] = res.Preemptions
		out.Stats["tasks"] = res.Tasks
		if res.Abandoned {
			out.Stats["abandoned"] = 1
		}
		out.Stats["freeze_windows_opened"] += res.Thawed
		out.Stats["handoff_windows_opened"] += res.Handoffs
		out.Nontrivial = res.Preemptions > 0
		out.Sig = res.LogHash
		out.Log = res.Log
		out.Adjacent = res.Adjacent
		if res.Deadlock {
			out.Class = "deadlock"
			out.Detail = "all client goroutines blocked although each client terminates alone"
			return
		}
		for i, pm := range res.ClientPanic {
			if strings.HasPrefix(pm, "step budget exceeded") {
				if overBudget < 0 {
					overBudget = i
				}
				continue
			}
			if pm != "" {
				out.Class = "interference_panic"
				out.Detail = fmt.Sprintf("client %d panicked outside a parse step: %s", i, pm)
				return
			}
		}
	}
	if c.Cold && !computeSolo() {
		return
	}
	if overBudget >= 0 {
		out.Class = "interference_divergence"
		out.Detail = fmt.Sprintf("client %d (grammar %s cfg %+v) terminates alone (every client does, within %d steps in all) and executes more than %d steps when the %d clients run together",
			overBudget, c.Clients[overBudget].Grammar, c.Clients[overBudget].Cfg, stepLimit, stepLimit, len(c.Clients))
		return
	}
	for i := range c.Clients {
		for k := range solo[i] {
			var g Obs
			if k < len(together[i]) {
				g = together[i][k]
			} else {
				g = Obs{Panic: "client did not reach this step"}
			}
			if solo[i][k].String() != g.String() {
				out.Class = "interference"
				out.Detail = fmt.Sprintf("client %d (grammar %s cfg %+v) step %d input %q\n  alone     : %s\n  concurrent: %s\n  clients: %d, scheduler steps %d, preemptions %d",
					i, c.Clients[i].Grammar, c.Clients[i].Cfg, k+1, c.Clients[i].Steps[k].Input, solo[i][k], g, len(c.Clients), res.Steps, res.Preemptions)
				return
			}
		}
	}
	return
}

// refOnly computes the digest of the reference observations of a case, the
// same way the full run does.
func refOnly(c Case) uint64 {
	switch c.Mode {
	case "c06":
		g := simrt.LookupGrammar(c.Grammar)
		if g == nil || len(c.History) > 0 || c.Marathon != nil {
			return 0
		}
		if c.Sweep != nil {
			refCfg := c.Cfg
			refCfg.NoMemo = true
			for _, in := range sweepInputs(g, c.Cfg, c.Sweep) {
				doStep(g.New(refCfg, in), Step{Input: in, Entry: -1, Exec: true, AST: true, Tree: true})
			}
			return 0
		}
		st := Step{Input: c.Input, Entry: c.Entry, Exec: true, AST: true, Tree: true, Reparse: c.Reparse}
		refCfg := c.Cfg
		refCfg.NoMemo = true
		ref := doStep(g.New(refCfg, c.Input), st)
		return uint64(simrt.NewHash().AddString(ref.String()))
	case "c12":
		p := *c.Prog
		if simrt.LookupGrammar(p.Grammar) == nil || p.Marathon != nil {
			return 0
		}
		if c.Sweep != nil {
			for _, in := range sweepInputs(simrt.LookupGrammar(p.Grammar), p.Cfg, c.Sweep) {
				q := Prog{Grammar: p.Grammar, Cfg: p.Cfg, Steps: []Step{{Input: in, Entry: -1, Exec: true, AST: true, Tree: len(in) < 20000}}}
				runFresh(q, 0)
			}
			return 0
		}
		rh := simrt.NewHash()
		for k := range p.Steps {
			rh = rh.AddString(runFresh(p, k).String())
		}
		return uint64(rh)
	case "c14":
		rh := simrt.NewHash()
		for _, p := range c.Clients {
			if simrt.LookupGrammar(p.Grammar) == nil {
				return 0
			}
			for _, o := range runProg(p) {
				rh = rh.AddString(o.String())
			}
		}
		return uint64(rh)
	}
	return 0
}

// ---------- case generation (a pure function of seed and run index) ----------

func pickGrammar(r *simrt.SplitMix64) *GrammarInfo {
	for range 8 {
		g := &workload[r.Intn(len(workload))]
		if g.Heavy && !r.Chance(1, 6) {
			continue
		}
		return g
	}
	return &workload[r.Intn(len(workload))]
}

func pickInput(r *simrt.SplitMix64, g *GrammarInfo) string {
	if len(g.Inputs) == 0 {
		return ""
	}
	in := g.Inputs[r.Intn(len(g.Inputs))]
	// scaled inputs: a short pool member repeated a log-uniformly drawn
	// number of times (plus a pool member as tail), so that input lengths and
	// token counts are spread over three orders of magnitude and land on both
	// sides of every buffer-growth boundary
	if !g.Heavy && r.Chance(1, 12) {
		base := in
		for tries := 0; (len(base) == 0 || len(base) > 16) && tries < 12; tries++ {
			base = g.Inputs[r.Intn(len(g.Inputs))]
		}
		if n := len(base); n > 0 && n <= 16 {
			// the repeated unit is one or two pool members, and a random
			// prefix shifts every later offset and token index, so that the
			// same buffer boundary is approached from many alignments
			unit := base
			if b2 := g.Inputs[r.Intn(len(g.Inputs))]; len(b2) <= 16 && r.Chance(1, 2) {
				unit += b2
			}
			reps := 1 + int(math.Pow(6000/float64(len(unit)), r.Float()))
			in = ""
			if pre := g.Inputs[r.Intn(len(g.Inputs))]; len(pre) <= 24 && r.Chance(2, 3) {
				in = pre
			}
			in += strings.Repeat(unit, reps)
			if r.Chance(1, 2) {
				if t := g.Inputs[r.Intn(len(g.Inputs))]; len(t) <= 40 {
					in += t
				}
			}
		}
	}
	return in
}

// deriveInput makes the next input of a history out of the previous one:
// a byte-level prefix of it (possibly ending inside a multi-byte rune, i.e.
// invalid UTF-8), the previous input extended by the tail or the whole of
// another one, or the previous input with its last byte dropped.
func deriveInput(r *simrt.SplitMix64, g *GrammarInfo, prev string) string {
	other := g.Inputs[r.Intn(len(g.Inputs))]
	if len(other) > 200 {
		other = other[:200]
	}
	switch r.Intn(7) {
	case 5, 6:
		// stray bytes that are not UTF-8 on their own, put into or over the
		// previous input (every Go string is a legal Buffer)
		b := []byte(prev)
		bad := []byte{0xff, 0x80, 0xc0, 0xfe, 0xed}[r.Intn(5)]
		if len(b) == 0 || r.Chance(1, 2) {
			p := r.Intn(len(b) + 1)
			b = append(b[:p], append([]byte{bad}, b[p:]...)...)
		} else {
			b[r.Intn(len(b))] = bad
		}
		return string(b)
	case 0:
		if len(prev) > 0 {
			return prev[:r.Intn(len(prev))]
		}
	case 1:
		if len(prev) > 0 {
			return prev[:len(prev)-1]
		}
	case 2:
		if len(other) > 0 {
			return prev + other[r.Intn(len(other)):]
		}
	case 3:
		return prev + other
	}
	// a pool member cut at a random byte
	if len(other) > 0 {
		return other[:r.Intn(len(other)+1)]
	}
	return prev
}

func pickCfg(r *simrt.SplitMix64, g *GrammarInfo) simrt.InstCfg {
	cfg := simrt.InstCfg{}
	// every instantiation the property names; the shipped grammars' real
	// inputs (a few thousand runes, far fewer tokens than 65 535) fit uint16 too
	cfg.U = r.Intn(4)
	if r.Chance(1, 10) {
		cfg.U = 4 // uint8: the driver falls back to uint16 when the input has 255 runes or more
	}
	cfg.Size = []int{0, 0, 1, 7, 1 << 15}[r.Intn(5)]
	cfg.Pretty = r.Chance(1, 4)
	cfg.ShareOpts = r.Chance(1, 2)
	cfg.OptOrder = r.Intn(6)
	return cfg
}

// fitU keeps the uint8 instantiation for programs all of whose inputs have
// fewer than 250 bytes (the property only promises independence of U "as
// long as the input fits that type").
func fitU(cfg *simrt.InstCfg, inputs ...string) {
	if cfg.U != 4 {
		return
	}
	for _, in := range inputs {
		if len(in) >= 250 {
			cfg.U = 1
			return
		}
	}
}

func pickEntry(r *simrt.SplitMix64, g *GrammarInfo) int {
	if len(g.Entries) > 0 && r.Chance(1, 5) {
		return g.Entries[r.Intn(len(g.Entries))]
	}
	return -1
}

func genMarathon(r *simrt.SplitMix64, g *GrammarInfo, period int) *Marathon {
	m := &Marathon{Period: period, Cycles: 2}
	_ = m
	best := g.Inputs[r.Intn(len(g.Inputs))]
	for range 6 {
		if c := g.Inputs[r.Intn(len(g.Inputs))]; len(c) < len(best) {
			best = c
		}
	}
	m.Filler = best
	for tries := 0; len(m.Rare) < 3 && tries < 200; tries++ {
		if in := g.Inputs[r.Intn(len(g.Inputs))]; len(in) <= 64 {
			m.Rare = append(m.Rare, in)
		}
	}
	if len(m.Rare) == 0 {
		m.Rare = []string{best}
	}
	return m
}

func genC06(seed uint64, i int) Case {
	r := simrt.NewRNG(simrt.DeriveN(seed, "c06", i))
	g := pickGrammar(r)
	if i%1500 == 5 {
		if sg, sw := genSweep(r); sw != nil {
			c := Case{Mode: "c06", Run: i, Grammar: sg.Name, Entry: -1, Cfg: pickCfg(r, sg), Sweep: sw}
			c.Cfg.U %= 4
			c.FaultCfg.Den = 64
			if r.Chance(1, 3) {
				c.Cfg.Size = sw.Boundary
			}
			return c
		}
	}
	c := Case{Mode: "c06", Run: i, Grammar: g.Name, Input: pickInput(r, g), Entry: pickEntry(r, g), Cfg: pickCfg(r, g)}
	// reused instances: short histories, and long ones whose rare inputs recur
	// at multiples of 256 and 65 536 steps
	if !g.Heavy && len(g.Inputs) > 3 {
		switch {
		case i%25000 == 17:
			c.Marathon = genMarathon(r, g, 65536)
			c.Entry, c.FaultCfg.Den = -1, 64
			c.Cfg.U %= 4
			return c
		case i%1500 == 11:
			c.Marathon = genMarathon(r, g, 256)
			c.Entry, c.FaultCfg.Den = -1, 64
			c.Cfg.U %= 4
			return c
		case i%20 == 3:
			for range 2 + r.Intn(9) {
				in := pickInput(r, g)
				for tries := 0; len(in) > 200 && tries < 10; tries++ {
					in = pickInput(r, g)
				}
				if n := len(c.History); n > 0 && r.Chance(1, 4) {
					in = deriveInput(r, g, c.History[n-1])
				}
				c.History = append(c.History, in)
			}
			c.Entry, c.Input = -1, ""
			fitU(&c.Cfg, c.History...)
		}
	}
	fitU(&c.Cfg, c.Input)
	if r.Chance(1, 10) {
		c.Reparse = 1
		if len(g.Entries) > 0 && r.Chance(2, 3) {
			c.Reparse = 2 + g.Entries[r.Intn(len(g.Entries))]
		}
	}
	c.FaultCfg.Den = 64
	rates := []uint32{0, 4, 16, 32}
	kind := r.Intn(8)
	if g.Heavy {
		kind = []int{0, 1}[r.Intn(2)]
	}
	switch kind {
	case 0: // fault-free
	case 1:
		c.FaultCfg.Drop = 4
	case 2:
		c.FaultCfg.Drop = rates[1+r.Intn(3)]
	case 3:
		c.FaultCfg.Miss = rates[1+r.Intn(3)]
	case 4:
		c.FaultCfg.Evict = uint32(1 + r.Intn(4))
	case 5:
		c.FaultCfg.Drop, c.FaultCfg.Miss = rates[r.Intn(4)], rates[r.Intn(4)]
	case 6:
		c.FaultCfg.Drop, c.FaultCfg.Miss, c.FaultCfg.Evict = rates[r.Intn(4)], rates[r.Intn(4)], uint32(r.Intn(3))
	case 7:
		c.FaultCfg.Drop = 60
	}
	if kind != 0 {
		n := 2048
		c.FaultTape = make([]uint32, n)
		for j := range c.FaultTape {
			c.FaultTape[j] = r.Uint32() | 1
		}
	}
	return c
}

func genProg(r *simrt.SplitMix64, g *GrammarInfo, minSteps, maxSteps int, faults bool) Prog {
	p := Prog{Grammar: g.Name, Cfg: pickCfg(r, g)}
	p.Cfg.NoMemo = r.Chance(1, 4)
	n := minSteps + r.Intn(maxSteps-minSteps+1)
	for k := 0; k < n; k++ {
		st := Step{Input: pickInput(r, g), Entry: -1, Exec: r.Chance(2, 3), AST: r.Chance(1, 2), Tree: r.Chance(1, 2), Pretty: r.Chance(1, 4)}
		if k > 0 && r.Chance(1, 6) {
			st.Input = p.Steps[r.Intn(k)].Input // repeat an earlier input
		} else if k > 0 && len(g.Inputs) > 0 && len(p.Steps[k-1].Input) <= 400 && r.Chance(1, 4) {
			st.Input = deriveInput(r, g, p.Steps[k-1].Input)
		}
		if r.Chance(1, 8) {
			st.Entry = pickEntry(r, g)
		}
		if r.Chance(1, 8) {
			st.Reparse = 1
			if len(g.Entries) > 0 && r.Chance(2, 3) {
				st.Reparse = 2 + g.Entries[r.Intn(len(g.Entries))]
			}
		}
		st.Reinit = k > 0 && r.Chance(1, 10)
		st.GC = r.Chance(1, 12)
		if faults && g.HasHost && r.Chance(1, 3) {
			if r.Chance(1, 2) {
				st.AbortPredSel = r.Uint32() | 1
			} else {
				st.AbortActSel = r.Uint32() | 1
				st.Exec = true
			}
		}
		p.Steps = append(p.Steps, st)
	}
	for _, st := range p.Steps {
		fitU(&p.Cfg, st.Input)
	}
	return p
}

func genC12(seed uint64, i int) Case {
	r := simrt.NewRNG(simrt.DeriveN(seed, "c12", i))
	g := pickGrammar(r)
	if i%800 == 5 {
		if sg, sw := genSweep(r); sw != nil {
			g = sg
			sw.Width = 24
			cfg := pickCfg(r, g)
			cfg.U %= 4
			if cfg.U == 1 && sw.Boundary > 8192 {
				cfg.U = 0
			}
			if r.Chance(1, 2) {
				cfg.Size = sw.Boundary
			}
			p := Prog{Grammar: g.Name, Cfg: cfg}
			return Case{Mode: "c12", Run: i, Prog: &p, Sweep: sw}
		}
	}
	if i%4000 == 13 && len(linearNames) > 0 {
		// a history with one giant input in the middle (hundreds of thousands
		// of runes: more than a million memo entries, token buffers far beyond
		// every knob), small ones before and after
		sg := byName[linearNames[r.Intn(len(linearNames))]]
		units := linear[sg.Name]
		u := units[r.Intn(len(units))]
		giant := strings.Repeat(u, 1+(300_000+r.Intn(300_000))/len(u))
		p := Prog{Grammar: sg.Name, Cfg: simrt.InstCfg{U: []int{0, 2, 3}[r.Intn(3)], Size: []int{0, 1024}[r.Intn(2)]}}
		for k := 0; k < 6; k++ {
			in := units[r.Intn(len(units))]
			if k == 2 {
				in = giant
			} else if r.Chance(1, 2) {
				in = pickInput(r, sg)
				if len(in) > 200 {
					in = u
				}
			}
			p.Steps = append(p.Steps, Step{Input: in, Entry: -1, Exec: k != 2, AST: k != 2, Tree: k != 2})
		}
		return Case{Mode: "c12", Run: i, Prog: &p, Giant: true}
	}
	if i%1500 == 7 || i%200 == 11 {
		for tries := 0; g.Heavy && tries < 20; tries++ {
			g = pickGrammar(r)
		}
		if !g.Heavy && len(g.Inputs) > 3 {
			period, u := 65536, 1
			if i%1500 != 7 {
				period, u = 256, r.Intn(4)
			}
			p := Prog{Grammar: g.Name, Cfg: simrt.InstCfg{U: u, Size: []int{0, 1, 1 << 15}[r.Intn(3)], NoMemo: r.Chance(1, 8)}, Marathon: genMarathon(r, g, period)}
			return Case{Mode: "c12", Run: i, Prog: &p}
		}
	}
	faults := i%2 == 1 // fault-free and fault-injecting histories are separate sub-runs
	maxSteps := 12
	if g.Heavy {
		maxSteps = 4
	}
	p := genProg(r, g, 2, maxSteps, faults)
	return Case{Mode: "c12", Run: i, Prog: &p}
}

func genC14(seed uint64, i int, race bool, cold bool) Case {
	r := simrt.NewRNG(simrt.DeriveN(seed, "c14", i))
	k := 2 + r.Intn(3)
	if r.Chance(1, 10) {
		k = 5 + r.Intn(4) // now and then a crowd
	}
	c := Case{Mode: "c14", Run: i, Race: race, Cold: cold}
	first := pickGrammar(r)
	for j := 0; j < k; j++ {
		g := first
		if j > 0 && r.Chance(1, 2) {
			g = pickGrammar(r)
			// prefer a sibling of the first grammar (same text, other options): shared rule names
			if r.Chance(1, 2) {
				for range 6 {
					h := &workload[r.Intn(len(workload))]
					if h.Base == first.Base {
						g = h
						break
					}
				}
			}
		}
		maxSteps := 3
		if r.Chance(1, 8) {
			maxSteps = 7
		}
		if g.Heavy {
			maxSteps = 1
		}
		p := genProg(r, g, 1, maxSteps, false)
		// now and then a client's parse or Execute is cut short by a panicking
		// callback that the client recovers (the same abort in its solo run)
		if g.HasHost && !cold && r.Chance(1, 5) {
			k := r.Intn(len(p.Steps))
			if r.Chance(1, 2) {
				p.Steps[k].AbortPred = 1 + r.Intn(3)
			} else {
				p.Steps[k].AbortAct, p.Steps[k].Exec = 1+r.Intn(3), true
			}
		}
		if j > 0 && r.Chance(1, 2) {
			for _, q := range c.Clients {
				if q.Grammar == p.Grammar {
					p.Cfg = q.Cfg
					break
				}
			}
		}
		if cold || race {
			// no budget guard precedes a cold concurrent run, and the unwoven
			// race build has no step counter at all: memoisation on
			// and inputs of bounded size; half of the cold clients take the
			// largest such inputs (state that is grown or built lazily is
			// usually size-dependent) and print their trees
			p.Cfg.NoMemo = false
			gi := byName[p.Grammar]
			var big []string
			for _, in := range gi.Inputs {
				if len(in) <= 1200 && !gi.Heavy {
					big = append(big, in)
				}
			}
			slices.SortFunc(big, func(a, b string) int { return len(b) - len(a) })
			if len(big) > 4 {
				big = big[:4]
			}
			extreme := r.Chance(1, 2) && len(big) > 0
			for k := range p.Steps {
				if extreme {
					p.Steps[k].Input = big[r.Intn(len(big))]
					p.Steps[k].Tree, p.Steps[k].AST, p.Steps[k].Pretty = true, true, r.Chance(1, 2)
					continue
				}
				for tries := 0; len(p.Steps[k].Input) > 64 && tries < 20; tries++ {
					p.Steps[k].Input = pickInput(r, gi)
				}
				if len(p.Steps[k].Input) > 64 {
					p.Steps[k].Input = ""
				}
			}
		}
		// now and then one client works on a big input (tens of thousands of
		// runes: memo tables and token buffers of a size at which pooling,
		// shrinking or recycling might kick in) and parses a second time
		// without Reset, while the others do their small things
		if j == 0 && !cold && !race && len(linear[g.Name]) > 0 && r.Chance(1, 10) {
			u := linear[g.Name][r.Intn(len(linear[g.Name]))]
			big := strings.Repeat(u, 1+(20_000+r.Intn(25_000))/len(u))
			if r.Chance(1, 2) {
				// sized by what the parse leaves behind rather than by runes:
				// 70 000 to 140 000 tokens (each one a memo entry as well)
				big = strings.Repeat(u, min(1+(70_000+r.Intn(70_000))/unitTokens[g.Name+"\x00"+u], 400_000/len(u)))
			}
			if r.Chance(1, 2) {
				// ... which fails at its very end, so that the second Parse
				// starts over from offset 0 (after a success it starts where
				// the first one stopped)
				big += []string{"\x00", "\x00\n", u[:1] + "\x00"}[r.Intn(3)]
			}
			p.Cfg.NoMemo, p.Cfg.U = false, []int{0, 2, 3}[r.Intn(3)]
			p.Steps[0].Input, p.Steps[0].Tree, p.Steps[0].Pretty, p.Steps[0].AST = big, false, false, false
			p.Steps[0].Reparse = 1
			if len(g.Entries) > 0 {
				p.Steps[0].Reparse = 2 + g.Entries[r.Intn(len(g.Entries))]
			}
		}
		for _, st := range p.Steps {
			fitU(&p.Cfg, st.Input)
		}
		c.Clients = append(c.Clients, p)
	}
	style := r.Intn(simrt.FillStyles)
	param := []int{1, 2, 4, 12, 60, 400}[r.Intn(6)]
	if style == simrt.FillFew {
		param = []int{1, 2, 3, 5, 8}[r.Intn(5)]
	}
	n := 6000
	c.SchedTape = simrt.FillTape(r, n, style, param)
	c.ActiveNum, c.ActiveDen = []int{1, 1, 3, 1}[r.Intn(4)], []int{1, 2, 4, 8}[r.Intn(4)]
	if c.ActiveNum > c.ActiveDen {
		c.ActiveNum = c.ActiveDen
	}
	c.SiteSeed = r.Uint64()
	c.Budget = []uint32{2, 4, 8, 32}[r.Intn(4)]
	if r.Chance(1, 3) {
		c.FreezeClient = r.Intn(len(c.Clients))
		c.FreezeAt = 1 + int(r.Float()*r.Float()*400)
		if r.Chance(1, 3) {
			// freeze right after one of the client's first synchronisation operations
			c.FreezeSync, c.FreezeAt = true, 1+r.Intn(6)
		}
	}
	// handoff: one client does not start before another has completed its
	// n-th synchronisation operation, which then stands still; always tried
	// when a client works on a big input (pools and caches that only take
	// grown objects)
	bigFirst := len(c.Clients[0].Steps[0].Input) >= 20_000
	if r.Chance(1, 12) || (bigFirst && r.Chance(1, 2)) {
		c.HandoffHolder, c.HandoffWaiter, c.HandoffAfter = r.Intn(len(c.Clients)), r.Intn(len(c.Clients)), 1+r.Intn(4)
		if bigFirst {
			c.HandoffHolder, c.HandoffWaiter = 0, 1+r.Intn(len(c.Clients)-1)
		}
	}
	return c
}

// ---------- driver ----------

// memWatchdog ends the process when the code under test eats memory without
// bound (exit status 77; the orchestrator reports the case as a crash).
func memWatchdog() {
	limit := uint64(4 << 30)
	if v := os.Getenv("VERIF_MEMLIMIT_MB"); v != "" {
		var n uint64
		fmt.Sscan(v, &n)
		if n > 0 {
			limit = n << 20
		}
	}
	// the collector works against three quarters of the limit, so that garbage
	// of finished cases is not mistaken for unbounded growth
	debug.SetMemoryLimit(int64(limit / 4 * 3))
	go func() {
		// memory in use = everything mapped minus what was given back to the OS
		s := []metrics.Sample{{Name: "/memory/classes/total:bytes"}, {Name: "/memory/classes/heap/released:bytes"}}
		used := func() uint64 {
			metrics.Read(s)
			return s[0].Value.Uint64() - s[1].Value.Uint64()
		}
		var lastGC time.Time
		for {
			time.Sleep(50 * time.Millisecond)
			u := used()
			if u > limit && u < limit*3/2 && time.Since(lastGC) > 2*time.Second {
				// is it live? collect, give back, look again
				debug.FreeOSMemory()
				lastGC = time.Now()
				u = used()
			}
			if u > limit {
				fmt.Fprintf(os.Stderr, "memory watchdog: %d MB in use, limit %d MB\n", u>>20, limit>>20)
				os.Exit(77)
			}
		}
	}()
}

func TestSim(t *testing.T) {
	jobPath := os.Getenv("VERIF_JOB")
	if jobPath == "" {
		t.Skip("no VERIF_JOB")
	}
	memWatchdog()
	var job Job
	mustRead(t, jobPath, &job)
	if !job.Race && !simrt.GoidIsFast() && os.Getenv("VERIF_ALLOW_SLOW_GOID") == "" {
		fmt.Fprintln(os.Stderr, "VERIF-INFRA: goroutine-id calibration failed:", simrt.GoidCalReason())
		os.Exit(3)
	}
	mustRead(t, job.Workload, &workload)
	thoroughTier = job.Thorough
	for i := range workload {
		byName[workload[i].Name] = &workload[i]
	}
	// only grammars that are linked into this binary
	linked := map[string]bool{}
	for _, n := range simrt.GrammarNames() {
		linked[n] = true
	}
	workload = slices.DeleteFunc(workload, func(g GrammarInfo) bool { return !linked[g.Name] })
	for i := range workload {
		byName[workload[i].Name] = &workload[i]
	}
	findRepeatable()
	for i := range workload {
		inst := simrt.LookupGrammar(workload[i].Name).New(simrt.InstCfg{}, "")
		if c, ok := inst.(interface{ Callable() []int }); ok && !slices.Contains(workload[i].Opts, "-inline") {
			workload[i].Entries = c.Callable()
		}
	}
	res := JobResult{Skipped: map[string]int{}, Stats: map[string]int{}, GoidFast: !job.Race && simrt.GoidIsFast(), NSites: simrt.NSites}
	sigs := map[uint64]bool{}
	adj := map[uint64]bool{}
	skip := map[int]bool{}
	for _, k := range job.Skip {
		skip[k] = true
	}
	handle := func(c Case) Outcome {
		var o Outcome
		if job.RefOnly {
			res.Runs++
			if skip[c.Run] {
				res.RefSigs = append(res.RefSigs, 0)
			} else {
				res.RefSigs = append(res.RefSigs, refOnly(c))
			}
			return o
		}
		switch c.Mode {
		case "c06":
			o = runC06(c)
		case "c12":
			o = runC12(c)
		case "c14":
			o = runC14(t, c, job.KeepLog)
		default:
			t.Fatalf("unknown mode %q", c.Mode)
		}
		res.Runs++
		if job.RefSigs {
			if o.Skipped != "" {
				o.RefSig = 0
			}
			res.RefSigs = append(res.RefSigs, o.RefSig)
		}
		if o.Skipped != "" {
			res.Skipped[o.Skipped]++
			return o
		}
		for k, v := range o.Stats {
			res.Stats[k] += v
		}
		if o.Nontrivial {
			res.Nontrivial++
			sigs[o.Sig] = true
		}
		for _, a := range o.Adjacent {
			adj[a] = true
		}
		if o.Class != "" && (job.MaxViol == 0 || len(res.Violations) < job.MaxViol) {
			if o.Resolved != nil {
				c.Prog = o.Resolved
			}
			res.Violations = append(res.Violations, ViolationReport{Case: c, Outcome: o})
		}
		o.Resolved = nil
		return o
	}
	if len(job.Explicit) > 0 {
		for _, c := range job.Explicit {
			res.Outcomes = append(res.Outcomes, handle(c))
		}
	} else {
		// where a dying process got to (read by the orchestrator to find the
		// case that killed it)
		at, _ := os.Create(os.Getenv("VERIF_OUT") + ".at")
		for i := job.From; i < job.To; i++ {
			if at != nil {
				at.WriteAt([]byte(fmt.Sprintf("%12d", i)), 0)
			}
			var c Case
			switch job.Mode {
			case "c06":
				c = genC06(job.Seed, i)
			case "c12":
				c = genC12(job.Seed, i)
			case "c14":
				c = genC14(job.Seed, i, job.Race, i == job.From)
			}
			o := handle(c)
			if len(res.Samples) < 2 && o.Nontrivial && o.Skipped == "" {
				s := c
				if len(s.SchedTape) > 16 {
					s.SchedTape = s.SchedTape[:16]
				}
				if len(s.FaultTape) > 16 {
					s.FaultTape = s.FaultTape[:16]
				}
				res.Samples = append(res.Samples, s)
			}
		}
	}
	for s := range sigs {
		res.Sigs = append(res.Sigs, s)
	}
	for a := range adj {
		res.Adjacent = append(res.Adjacent, a)
	}
	b, err := json.Marshal(res)
	if err != nil {
		t.Fatal(err)
	}
	if err := os.WriteFile(os.Getenv("VERIF_OUT"), b, 0o644); err != nil {
		t.Fatal(err)
	}
}

func mustRead(t *testing.T, path string, v any) {
	b, err := os.ReadFile(path)
	if err != nil {
		t.Fatal(err)
	}
	if err := json.Unmarshal(b, v); err != nil {
		t.Fatalf("%s: %v", path, err)
	}
}
