//go:build zzsim

// refgen produces reference output through the library path: the
// repository's own front end (copied to zzsim/frontend) + tree.New +
// Compile, i.e. what main.go is supposed to wire together, without main.go.
// It reads JSON requests on stdin (one per line) and answers on stdout.
package main

import (
	"bufio"
	"bytes"
	"encoding/json"
	"fmt"
	"io"
	"os"

	"github.com/pointlander/peg/tree"
	frontend "github.com/pointlander/peg/zzsim/frontend"
)

type Req struct {
	ID     int
	Text   string
	Inline bool
	Switch bool
	NoAst  bool
	Strict bool
	File   string
	Args   []string
}

type Resp struct {
	ID         int
	ParseErr   string
	CompileErr string
	Out        []byte
	Stderr     string
	Panic      string
}

func one(rq Req) (rs Resp) {
	rs.ID = rq.ID
	tmp, err := os.CreateTemp("", "refgen-stderr-")
	if err != nil {
		rs.Panic = "infra: " + err.Error()
		return
	}
	saved := os.Stderr
	os.Stderr = tmp
	defer func() {
		os.Stderr = saved
		if r := recover(); r != nil {
			rs.Panic = fmt.Sprint(r)
		}
		_, _ = tmp.Seek(0, 0)
		b, _ := io.ReadAll(tmp)
		rs.Stderr = string(b)
		tmp.Close()
		os.Remove(tmp.Name())
	}()
	p := &frontend.Peg[uint32]{Tree: tree.New(rq.Inline, rq.Switch, rq.NoAst), Buffer: rq.Text}
	_ = p.Init(frontend.Pretty[uint32](true), frontend.Size[uint32](1<<15))
	if err := p.Parse(); err != nil {
		rs.ParseErr = err.Error()
		return
	}
	p.Execute()
	p.Strict = rq.Strict
	var out bytes.Buffer
	if err := p.Compile(rq.File, rq.Args, &out); err != nil {
		rs.CompileErr = err.Error()
	}
	rs.Out = out.Bytes()
	return
}

func main() {
	in := bufio.NewReaderSize(os.Stdin, 1<<20)
	w := bufio.NewWriter(os.Stdout)
	defer w.Flush()
	dec := json.NewDecoder(in)
	enc := json.NewEncoder(w)
	for {
		var rq Req
		if err := dec.Decode(&rq); err != nil {
			if err == io.EOF {
				return
			}
			fmt.Fprintln(os.Stderr, "refgen:", err)
			os.Exit(2)
		}
		_ = enc.Encode(one(rq))
	}
}
