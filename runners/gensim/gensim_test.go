//go:build zzsim

// Package gensim is the simulation runner for code generation (C09): the
// repository's front end and tree.Compile, woven with yield points, run
// under the seeded scheduler (the caller plus the two analysis goroutines of
// each Compile, and several concurrent Compiles on independent trees).
package gensim

import (
	"bytes"
	"encoding/json"
	"fmt"
	"hash/fnv"
	"os"
	"runtime/debug"
	"runtime/metrics"
	"strings"
	"sync"
	"testing"
	"testing/synctest"
	"time"

	"github.com/pointlander/peg/tree"
	frontend "github.com/pointlander/peg/zzsim/frontend"
	"github.com/pointlander/peg/zzsim/simrt"
)

// ---------- protocol (mirrored in /verif/internal/orch/gensim.go) ----------

type GText struct {
	Name string `json:"name"`
	Text string `json:"text"`
}

type GClient struct {
	Text   int  `json:"text"` // index into the workload
	Inline bool `json:"inline"`
	Switch bool `json:"switch"`
	NoAst  bool `json:"noast"`
	Strict bool `json:"strict"`
}

type GCase struct {
	Run       int       `json:"run"`
	Clients   []GClient `json:"clients"`
	SchedTape []uint32  `json:"sched_tape,omitempty"`
	ActiveNum int       `json:"active_num,omitempty"`
	ActiveDen int       `json:"active_den,omitempty"`
	SiteSeed  uint64    `json:"site_seed,omitempty"`
	Budget    uint32    `json:"budget,omitempty"`
	MapSeed   uint64    `json:"map_seed,omitempty"`
	Race      bool      `json:"race,omitempty"`
	Cold      bool      `json:"cold,omitempty"` // concurrent run first, references afterwards (cold package state)
	// freeze strategy, see simrt.Config
	FreezeClient int      `json:"freeze_client,omitempty"`
	FreezeAt     int      `json:"freeze_at,omitempty"`
	Procs        int      `json:"procs,omitempty"`      // value of woven GOMAXPROCS(0)/NumCPU() in the scheduled run (the reference uses 1)
	ClockTape    []uint32 `json:"clock_tape,omitempty"` // steps of the simulated clock per reading (the reference's clock stands still)
}

type Job struct {
	Seed     uint64  `json:"seed"`
	From     int     `json:"from"`
	To       int     `json:"to"`
	Explicit []GCase `json:"explicit,omitempty"`
	Workload string  `json:"workload"`
	Race     bool    `json:"race"`
	KeepLog  bool    `json:"keep_log"`
	MaxViol  int     `json:"max_viol"`
	// Solo: only compute the solo (sequential, unscheduled) result of every
	// (text, option set) and return digests, for validation against the real binary
	Solo bool `json:"solo"`
}

type GenResult struct {
	Text   int    `json:"text"`
	Opts   string `json:"opts"`
	OutLen int    `json:"out_len"`
	OutSum uint64 `json:"out_sum"`
	Err    string `json:"err"`
	Stderr string `json:"stderr"`
	Panic  string `json:"panic,omitempty"`
}

type Outcome struct {
	Class      string         `json:"class"`
	Detail     string         `json:"detail,omitempty"`
	Skipped    string         `json:"skipped,omitempty"`
	Nontrivial bool           `json:"nontrivial"`
	Sig        uint64         `json:"sig"`
	Stats      map[string]int `json:"stats,omitempty"`
	Log        []simrt.Event  `json:"log,omitempty"`
	Adjacent   []uint64       `json:"adjacent,omitempty"`
}

type ViolationReport struct {
	Case    GCase   `json:"case"`
	Outcome Outcome `json:"outcome"`
}

type JobResult struct {
	Runs       int               `json:"runs"`
	Skipped    map[string]int    `json:"skipped"`
	Nontrivial int               `json:"nontrivial"`
	Sigs       []uint64          `json:"sigs"`
	Stats      map[string]int    `json:"stats"`
	Violations []ViolationReport `json:"violations"`
	Samples    []GCase           `json:"samples"`
	Adjacent   []uint64          `json:"adjacent"`
	Outcomes   []Outcome         `json:"outcomes,omitempty"`
	Solo       []GenResult       `json:"solo,omitempty"`
	GoidFast   bool              `json:"goid_fast"`
	NSites     int               `json:"nsites"`
	MapRanges  uint64            `json:"map_ranges"`
	MapUnctl   uint64            `json:"map_uncontrolled"`
}

var texts []GText

func (c GClient) optString() string {
	var o []string
	if c.Inline {
		o = append(o, "-inline")
	}
	if c.Switch {
		o = append(o, "-switch")
	}
	if c.NoAst {
		o = append(o, "-noast")
	}
	if c.Strict {
		o = append(o, "-strict")
	}
	return strings.Join(o, " ")
}

func (c GClient) args() []string {
	a := []string{"peg"}
	if s := c.optString(); s != "" {
		a = append(a, strings.Fields(s)...)
	}
	return append(a, "-output", "out.go", "in.peg")
}

// generate is what a client does: front end, Execute, Compile.
func generate(c GClient, stderr func() string) (r GenResult) {
	r.Text, r.Opts = c.Text, c.optString()
	defer func() {
		if x := recover(); x != nil {
			r.Panic = fmt.Sprint(x) + " @ " + frames(debug.Stack())
		}
	}()
	p := &frontend.Peg[uint32]{Tree: tree.New(c.Inline, c.Switch, c.NoAst), Buffer: texts[c.Text].Text}
	_ = p.Init(frontend.Pretty[uint32](true), frontend.Size[uint32](1<<15))
	if err := p.Parse(); err != nil {
		r.Err = "parse: " + err.Error()
		return
	}
	p.Execute()
	p.Strict = c.Strict
	var out bytes.Buffer
	if err := p.Compile("out.go", c.args(), &out); err != nil {
		r.Err = "compile: " + err.Error()
	}
	h := fnv.New64a()
	h.Write(out.Bytes())
	r.OutLen, r.OutSum = out.Len(), h.Sum64()
	return
}

func frames(stack []byte) string {
	var out []string
	for _, l := range strings.Split(string(stack), "\n") {
		l = strings.TrimSpace(l)
		if strings.Contains(l, ".go:") && !strings.Contains(l, "runtime/") && !strings.Contains(l, "gensim_test.go") {
			if i := strings.LastIndexByte(l, '/'); i >= 0 {
				l = l[i+1:]
			}
			if j := strings.IndexByte(l, ' '); j >= 0 {
				l = l[:j]
			}
			out = append(out, l)
			if len(out) == 3 {
				break
			}
		}
	}
	return strings.Join(out, " < ")
}

func (r GenResult) String() string {
	return fmt.Sprintf("out=%d bytes (fnv %016x) err=%q stderr=%q panic=%q", r.OutLen, r.OutSum, r.Err, r.Stderr, r.Panic)
}

var soloCache = map[string]GenResult{}

// solo is the reference for a client: the same generation alone. In the
// woven build it runs under the scheduler with an all-zero tape and no active
// yield site (the sequential schedule: the caller runs until it blocks, then
// the goroutines it spawned run one after the other in name order), so the
// reference itself is a pure function of the code and replays exactly. In
// the unwoven race build it simply runs.
func solo(t *testing.T, c GClient, mapSeed uint64, race bool) GenResult {
	key := fmt.Sprintf("%d|%s|%d", c.Text, c.optString(), mapSeed)
	if r, ok := soloCache[key]; ok {
		return r
	}
	var r GenResult
	if race {
		se := simrt.CaptureStderr(func() { r = generate(c, nil) })
		r.Stderr = se
		soloCache[key] = r
		return r
	}
	func() {
		defer func() {
			if x := recover(); x != nil {
				r.Panic = fmt.Sprint("bubble: ", x)
			}
		}()
		synctest.Test(t, func(t *testing.T) {
			res := simrt.Run(simrt.Config{ActiveNum: 0, ActiveDen: 1, MapSeed: mapSeed, Procs: 1}, []simrt.Client{{Name: "c0", Run: func() { r = generate(c, nil) }}})
			if len(res.Stderr) > 0 {
				r.Stderr = res.Stderr[0]
			}
			if res.Deadlock {
				r.Panic = "deadlock in the sequential schedule"
			}
			if len(res.ClientPanic) > 0 && res.ClientPanic[0] != "" && r.Panic == "" {
				r.Panic = res.ClientPanic[0]
			}
		})
	}()
	soloCache[key] = r
	return r
}

func runCase(t *testing.T, c GCase, keepLog bool) (out Outcome) {
	out.Stats = map[string]int{}
	for _, cl := range c.Clients {
		if cl.Text < 0 || cl.Text >= len(texts) {
			out.Skipped = "unknown text"
			return
		}
	}
	want := make([]GenResult, len(c.Clients))
	reference := func() bool {
		// reference: each client alone, sequentially, native map order
		for i, cl := range c.Clients {
			want[i] = solo(t, cl, 0, c.Race)
		}
		// map-order dimension: the same generation alone under a permuted order
		if c.MapSeed != 0 {
			for i, cl := range c.Clients {
				got := solo(t, cl, c.MapSeed, c.Race)
				if got.String() != want[i].String() {
					out.Class = "map_order"
					out.Detail = fmt.Sprintf("text %s options [%s]: output depends on map iteration order\n  runtime order : %s\n  permuted order: %s", texts[cl.Text].Name, cl.optString(), want[i], got)
					return false
				}
			}
		}
		return true
	}
	if !c.Cold && !reference() {
		return
	}
	got := make([]GenResult, len(c.Clients))
	var res simrt.Result
	if c.Race {
		var wg sync.WaitGroup
		start := make(chan struct{})
		var mu sync.Mutex
		for i, cl := range c.Clients {
			wg.Add(1)
			go func() {
				defer wg.Done()
				<-start
				r := generate(cl, nil)
				mu.Lock()
				got[i] = r
				mu.Unlock()
			}()
		}
		close(start)
		wg.Wait()
		out.Nontrivial = true
	} else {
		func() {
			defer func() {
				if r := recover(); r != nil {
					out.Skipped = fmt.Sprint("bubble: ", r)
				}
			}()
			synctest.Test(t, func(t *testing.T) {
				var clients []simrt.Client
				for i, cl := range c.Clients {
					clients = append(clients, simrt.Client{Name: fmt.Sprintf("c%d", i), Run: func() { got[i] = generate(cl, nil) }})
				}
				res = simrt.Run(simrt.Config{Tape: c.SchedTape, ActiveNum: c.ActiveNum, ActiveDen: c.ActiveDen, SiteSeed: c.SiteSeed,
					Budget: c.Budget, MapSeed: c.MapSeed, KeepLog: keepLog, FreezeClient: c.FreezeClient, FreezeAt: c.FreezeAt, Procs: c.Procs, ClockTape: c.ClockTape}, clients)
			})
		}()
		if out.Skipped != "" {
			if strings.Contains(out.Skipped, "deadlock") {
				out.Class, out.Detail, out.Skipped = "deadlock", "goroutines of the generation blocked forever under this schedule although the sequential run terminates: "+out.Skipped, ""
			}
			return
		}
		for i := range got {
			if i < len(res.Stderr) {
				got[i].Stderr = res.Stderr[i]
			}
		}
		out.Stats["sched_steps"] = int(res.Steps)
		out.Stats["sched_switches"] = res.Switches
		out.Stats["sched_preemptions"] = res.Preemptions
		out.Stats["tasks"] = res.Tasks
		out.Stats["adopted_goroutines"] = res.Adopted
		out.Stats["ambiguous_adoptions"] = res.Ambiguous
		if res.MaxRunnable >= 2 {
			out.Stats["runs_with_concurrent_window"]++
		}
		if res.Abandoned {
			out.Stats["abandoned"] = 1
		}
		out.Stats["freeze_windows_opened"] += res.Thawed
		out.Stats["clock_reads"] += res.ClockReads
		out.Nontrivial = res.Preemptions > 0
		out.Sig = res.LogHash
		out.Log = res.Log
		out.Adjacent = res.Adjacent
		if res.Deadlock {
			out.Class = "deadlock"
			out.Detail = "every goroutine of the generation is blocked under this schedule although the sequential run terminates"
			return
		}
		for i, pm := range res.ClientPanic {
			if pm != "" && got[i].Panic == "" {
				got[i].Panic = pm
			}
		}
	}
	if c.Cold && !reference() {
		return
	}
	if c.Race {
		for i := range got {
			got[i].Stderr = want[i].Stderr // free-running clients share the process's stderr
		}
	}
	for i, cl := range c.Clients {
		if got[i].String() != want[i].String() {
			out.Class = "schedule_dependent_output"
			if c.Race {
				out.Class = "free_running_output_differs"
			}
			out.Detail = fmt.Sprintf("client %d: text %s options [%s]\n  alone, sequential: %s\n  under schedule   : %s\n  clients %d, scheduler steps %d, preemptions %d, tasks %d",
				i, texts[cl.Text].Name, cl.optString(), want[i], got[i], len(c.Clients), res.Steps, res.Preemptions, res.Tasks)
			return
		}
	}
	return
}

func genClient(r *simrt.SplitMix64) GClient {
	c := GClient{Text: r.Intn(len(texts))}
	c.Inline, c.Switch = r.Chance(1, 2), r.Chance(1, 3)
	c.NoAst, c.Strict = r.Chance(1, 5), r.Chance(1, 3)
	return c
}

func genCase(seed uint64, i int, race bool, cold bool) GCase {
	r := simrt.NewRNG(simrt.DeriveN(seed, "c09", i))
	c := GCase{Run: i, Race: race, Cold: cold}
	k := 1
	if i%2 == 1 || race || cold {
		k = 2 + r.Intn(3)
	}
	if race {
		k = 4 + r.Intn(5)
	}
	for j := 0; j < k; j++ {
		c.Clients = append(c.Clients, genClient(r))
	}
	style := r.Intn(simrt.FillStyles)
	param := []int{1, 2, 4, 12, 60, 400}[r.Intn(6)]
	if style == simrt.FillFew {
		param = []int{1, 2, 3, 5, 8}[r.Intn(5)]
	}
	c.SchedTape = simrt.FillTape(r, 20000, style, param)
	c.ActiveNum, c.ActiveDen = []int{1, 1, 3, 1}[r.Intn(4)], []int{1, 2, 4, 8}[r.Intn(4)]
	if c.ActiveNum > c.ActiveDen {
		c.ActiveNum = c.ActiveDen
	}
	c.SiteSeed = r.Uint64()
	c.Budget = []uint32{2, 4, 8, 24}[r.Intn(4)]
	if r.Chance(1, 2) {
		c.MapSeed = r.Uint64() | 1
	}
	c.Procs = []int{1, 2, 3, 4, 7, 8, 16, 64}[r.Intn(8)]
	if r.Chance(2, 3) {
		c.ClockTape = FillClock(r)
	}
	if len(c.Clients) > 1 && r.Chance(1, 2) {
		c.FreezeClient = r.Intn(len(c.Clients))
		c.FreezeAt = 1 + int(r.Float()*r.Float()*3000)
	}
	return c
}

// FillClock: a short tape of clock steps; most readings move the clock a
// little, a few make it jump.
func FillClock(r *simrt.SplitMix64) []uint32 {
	out := make([]uint32, 64)
	for i := range out {
		switch r.Intn(4) {
		case 0:
		case 1, 2:
			out[i] = uint32(5 * (1 + r.Intn(1000))) // v%5 == 0: microseconds
		default:
			out[i] = uint32(5*(1+r.Intn(1000)) + 1 + r.Intn(4))
		}
	}
	return out
}

func memWatchdog() {
	limit := uint64(4 << 30)
	go func() {
		// memory in use = everything mapped minus what was given back to the OS
		s := []metrics.Sample{{Name: "/memory/classes/total:bytes"}, {Name: "/memory/classes/heap/released:bytes"}}
		for {
			time.Sleep(50 * time.Millisecond)
			metrics.Read(s)
			if used := s[0].Value.Uint64() - s[1].Value.Uint64(); used > limit {
				fmt.Fprintf(os.Stderr, "memory watchdog: %d MB in use, limit %d MB\n", used>>20, limit>>20)
				os.Exit(77)
			}
		}
	}()
}

func TestSim(t *testing.T) {
	jobPath := os.Getenv("VERIF_JOB")
	if jobPath == "" {
		t.Skip("no VERIF_JOB")
	}
	memWatchdog()
	var job Job
	mustRead(t, jobPath, &job)
	if !job.Race && !simrt.GoidIsFast() && os.Getenv("VERIF_ALLOW_SLOW_GOID") == "" {
		fmt.Fprintln(os.Stderr, "VERIF-INFRA: goroutine-id calibration failed:", simrt.GoidCalReason())
		os.Exit(3)
	}
	mustRead(t, job.Workload, &texts)
	res := JobResult{Skipped: map[string]int{}, Stats: map[string]int{}, GoidFast: !job.Race && simrt.GoidIsFast(), NSites: simrt.NSites}
	if job.Solo {
		for ti := range texts {
			for m := 0; m < 16; m++ {
				c := GClient{Text: ti, Inline: m&1 != 0, Switch: m&2 != 0, NoAst: m&4 != 0, Strict: m&8 != 0}
				if ti%job.To != job.From {
					continue
				}
				res.Solo = append(res.Solo, solo(t, c, 0, job.Race))
			}
		}
		write(t, res)
		return
	}
	sigs := map[uint64]bool{}
	adj := map[uint64]bool{}
	handle := func(c GCase) Outcome {
		o := runCase(t, c, job.KeepLog)
		res.Runs++
		if o.Skipped != "" {
			res.Skipped[o.Skipped]++
			return o
		}
		for k, v := range o.Stats {
			res.Stats[k] += v
		}
		if o.Nontrivial {
			res.Nontrivial++
			sigs[o.Sig] = true
		}
		for _, a := range o.Adjacent {
			adj[a] = true
		}
		if o.Class != "" && (job.MaxViol == 0 || len(res.Violations) < job.MaxViol) {
			res.Violations = append(res.Violations, ViolationReport{Case: c, Outcome: o})
		}
		return o
	}
	if len(job.Explicit) > 0 {
		for _, c := range job.Explicit {
			res.Outcomes = append(res.Outcomes, handle(c))
		}
	} else {
		for i := job.From; i < job.To; i++ {
			c := genCase(job.Seed, i, job.Race, i == job.From)
			o := handle(c)
			if len(res.Samples) < 2 && o.Nontrivial && o.Skipped == "" {
				s := c
				if len(s.SchedTape) > 16 {
					s.SchedTape = s.SchedTape[:16]
				}
				res.Samples = append(res.Samples, s)
			}
		}
	}
	for s := range sigs {
		res.Sigs = append(res.Sigs, s)
	}
	for a := range adj {
		res.Adjacent = append(res.Adjacent, a)
	}
	res.MapRanges, res.MapUnctl = simrt.MapRanges.Load(), simrt.MapUncontrolled.Load()
	write(t, res)
}

func write(t *testing.T, res JobResult) {
	b, err := json.Marshal(res)
	if err != nil {
		t.Fatal(err)
	}
	if err := os.WriteFile(os.Getenv("VERIF_OUT"), b, 0o644); err != nil {
		t.Fatal(err)
	}
}

func mustRead(t *testing.T, path string, v any) {
	b, err := os.ReadFile(path)
	if err != nil {
		t.Fatal(err)
	}
	if err := json.Unmarshal(b, v); err != nil {
		t.Fatalf("%s: %v", path, err)
	}
}
