// Command verif is the orchestrator of the checks in /verif.
//
//	verif check <property> [quick|thorough]
//	verif replay <file>
//	verif setup
//	verif selftest determinism|sensitivity [...]
package main

import (
	"encoding/json"
	"errors"
	"fmt"
	"os"

	"verif/internal/orch"
	"verif/internal/ptrace"
)

func usage() {
	fmt.Fprintln(os.Stderr, "usage: verif check <C06|C09|C12|C14|C18> [quick|thorough] | verif replay <file> | verif setup | verif selftest <name>")
	os.Exit(2)
}

func main() {
	if len(os.Args) < 2 {
		usage()
	}
	code, err := run(os.Args[1:])
	if err != nil {
		fmt.Fprintln(os.Stderr, "verif:", err)
		var in orch.Infra
		if errors.As(err, &in) || code == 0 {
			code = 2
		}
	}
	os.Exit(code)
}

func run(args []string) (int, error) {
	switch args[0] {
	case "check":
		if len(args) < 2 {
			usage()
		}
		tier := os.Getenv("VERIF_TIER")
		if len(args) >= 3 {
			tier = args[2]
		}
		if tier == "" {
			tier = "quick"
		}
		if tier != "quick" && tier != "thorough" {
			usage()
		}
		e, err := orch.NewEnv(tier)
		if err != nil {
			return 2, err
		}
		f, ok := orch.Checks[args[1]]
		if !ok {
			return 2, fmt.Errorf("no check for property %q", args[1])
		}
		return f(e)
	case "replay":
		if len(args) < 2 {
			usage()
		}
		rf, err := orch.LoadReplay(args[1])
		if err != nil {
			return 2, err
		}
		e, err := orch.NewEnv(rf.Tier)
		if err != nil {
			return 2, err
		}
		e.Seed = rf.Seed
		os.Setenv("VERIF_REPLAY_PATH", args[1])
		f, ok := orch.Replays[rf.Engine]
		if !ok {
			return 2, fmt.Errorf("no replay engine %q", rf.Engine)
		}
		return f(e, rf)
	case "trace":
		// helper process: run one program under the ptrace fault injector
		if len(args) < 2 {
			usage()
		}
		b, err := os.ReadFile(args[1])
		if err != nil {
			return 2, err
		}
		var sp ptrace.Spec
		if err := json.Unmarshal(b, &sp); err != nil {
			return 2, err
		}
		res, err := ptrace.Run(&sp)
		if err != nil {
			return 2, err
		}
		out, _ := json.Marshal(res)
		fmt.Println(string(out))
		return 0, nil
	case "setup":
		e, err := orch.NewEnv("quick")
		if err != nil {
			return 2, err
		}
		return orch.Setup(e)
	case "selftest":
		e, err := orch.NewEnv("quick")
		if err != nil {
			return 2, err
		}
		return orch.Selftest(e, args[1:])
	}
	usage()
	return 2, nil
}
